"""
PROG — correspondence of layer P (development aid, also hooked into C04 / C05 / C19).

The classifier productions of /repo are translated on every run into the program table
lean/VsgModel/Generated/ClassifyProg.lean (harness/gen_prog.py) and interpreted by the Lean driver
(`driver prog`).  For every corpus file, re-layout variants and a stream of corrupted inputs:

  * the REAL lexer + line classifiers build the initial token list (vhdlFile._processFile up to the
    call of design_file.tokenize, intercepted from outside),
  * the REAL productions and the Lean interpreter run on that same list,
  * the outcomes are compared token by token (class AND value of every token, number of tokens; on
    failure the exception type, for ClassifyError the whole message, and the partially classified list).

A difference is a correspondence break (common.Result.proof_break), never by itself a violation.
Coverage: which functions of the table were executed (a function never executed is translated but
untested).  Side product for C04: every input on which the REAL productions change a token's text.
"""
import collections
import json
import multiprocessing
import os
import random
import signal
import sys
import time

sys.path.insert(0, os.path.dirname(os.path.abspath(__file__)))

import common  # noqa: E402
import gen_inputs  # noqa: E402

WORKERS = int(os.environ.get("VERIF_PROG_WORKERS", "6"))
REAL_SECONDS = 10
VARIANT_KINDS = ["ws", "case", "comments", "lines", "messy", "tabs", "splitall", "glue"]

_W = {}


class _Stop(Exception):
    """raised by the hook after design_file.tokenize: the rest of vhdlFile.__init__ is not needed"""


class RealTimeout(Exception):
    pass


def _on_alarm(signum, frame):
    raise RealTimeout()


def _init():
    import vsgrun

    tables = json.load(open(os.path.join(common.CACHE, "tables.json")))
    _W["ci"] = vsgrun.ClassIndex(tables)
    _W["ncls"] = len(tables["classes"])
    _W["cla"], _W["conf"] = vsgrun.make_config(style=None)
    _W["drv"] = None
    _W["cap"] = None
    VF = vsgrun.VF
    real_tok = VF.design_file.tokenize
    _W["real_tok"] = real_tok

    def tokenize(lObjects):
        cap = _W.get("cap")
        if cap is None:
            return real_tok(lObjects)
        cap["before"] = snap(lObjects)
        signal.signal(signal.SIGALRM, _on_alarm)
        signal.alarm(REAL_SECONDS)
        try:
            real_tok(lObjects)
            cap["outcome"] = ("ok", "")
        except RealTimeout:
            cap["outcome"] = ("hang", "")
        except RecursionError:
            cap["outcome"] = ("RecursionError", "")
        except Exception as e:  # noqa: BLE001
            cap["outcome"] = (type(e).__name__, getattr(e, "message", "") if type(e).__name__ == "ClassifyError" else "")
            cap["site"] = site_of(e)
        finally:
            signal.alarm(0)
        cap["after"] = snap(lObjects)
        raise _Stop()

    VF.design_file.tokenize = tokenize


def site_of(exc):
    tb = exc.__traceback__
    last = "?"
    while tb is not None:
        fn = tb.tb_frame.f_code.co_filename
        if "/vsg/" in fn and "/verif/" not in fn:
            last = "%s:%s" % (fn.split("/vsg/", 1)[1], tb.tb_frame.f_code.co_name)
        tb = tb.tb_next
    return last


def snap(lObjects):
    ci = _W["ci"]
    return [(ci.of(o), o.value, o.lower_value) for o in lObjects]


def real_run(text, name):
    """(before, outcome, after, site) of the real productions on the real initial token list"""
    import vsgrun

    cap = {"before": None, "outcome": None, "after": None, "site": None}
    _W["cap"] = cap
    try:
        vsgrun.VF.vhdlFile(vsgrun.text_to_lines(text), _W["cla"], name, None, _W["conf"])
    except _Stop:
        pass
    finally:
        _W["cap"] = None
        signal.alarm(0)
    return cap


def enc_cp(s):
    return ".".join(str(ord(c)) for c in s)


def enc_tok(t):
    cls, val, low = t
    if cls < 0:
        cls = _W["ncls"]
    return "%d:%s:%s:-:-" % (cls, enc_cp(val), "=" if low == val else enc_cp(low))


def dec_tok(w):
    c, v, lo, _, _ = w.split(":")
    val = "".join(chr(int(p)) for p in v.split(".")) if v else ""
    low = val if lo == "=" else ("".join(chr(int(p)) for p in lo.split(".")) if lo else "")
    return (int(c), val, low)


def driver():
    import leanio

    if _W.get("drv") is None:
        _W["drv"] = leanio.Driver("prog")
    return _W["drv"]


FRAGMENTS = ("value", "noLen")  # checkers whose masked-table theorems (C04) are transferred to runs


def masked_driver(chk):
    """a second driver whose table has the functions failing checker `chk` made opaque (`MASK`): the table of the
    `progTable_masked_*` theorems.  Also returns the indices of the masked functions."""
    import leanio

    key = "drv_" + chk
    if _W.get(key) is None:
        d = leanio.Driver("prog")
        names = d.ask("FAILING\t" + chk)
        d.ask("MASK\t" + names)
        info = json.load(open(os.path.join(common.CACHE, "prog.json")))
        idx = {f["key"]: f["idx"] for f in info["functions"]}
        _W[key] = (d, {idx[n] for n in names.split(";") if n in idx})
    return _W[key]


def lean_run(before, name, entry="classify.design_file.tokenize", args="T", d=None):
    d = d or driver()
    line = d.ask("RUN\t%s\t%s\t%s\t%s" % (entry, args, enc_cp(name) if name else "-", " ".join(enc_tok(t) for t in before)))
    parts = line.split("\t")
    if len(parts) != 5:
        return {"head": "driver: " + line[:200], "msg": "", "ins": 0, "del": 0, "steps": 0, "cov": {}, "after": []}
    head, msg, insdel, cov, toks = parts
    ins, dele, steps = insdel.split(" ")
    covd = {}
    if cov:
        for w in cov.split(" "):
            a, b = w.split(":")
            covd[int(a)] = int(b)
    return {"head": head, "msg": "".join(chr(int(p)) for p in msg.split(".")) if msg else "", "ins": int(ins), "del": int(dele), "steps": int(steps), "cov": covd, "after": [dec_tok(w) for w in toks.split(" ")] if toks else []}


LEAN_KIND = {"hang": "err OutOfFuel", "RecursionError": "err RecursionError"}


def compare(cap, lean):
    """None if the two runs agree, else a description of the first difference"""
    kind, msg = cap["outcome"]
    if kind == "ok":
        if not lean["head"].startswith("ok"):
            return "real: ok, lean: %s" % lean["head"]
    elif kind in ("hang", "RecursionError"):
        # the frame limit / wall clock of CPython is not the model's fuel: both are `does not finish normally`
        if lean["head"] not in ("err OutOfFuel", "err RecursionError"):
            return "real: %s, lean: %s" % (kind, lean["head"])
        return None
    else:
        if lean["head"] != "err " + kind:
            return "real: raises %s, lean: %s" % (kind, lean["head"])
        if kind == "ClassifyError" and msg != lean["msg"]:
            return "ClassifyError message: real %r lean %r" % (msg[:300], lean["msg"][:300])
    a, b = cap["after"], lean["after"]
    if len(a) != len(b):
        return "number of tokens: real %d lean %d" % (len(a), len(b))
    ncls = _W["ncls"]
    for i, (x, y) in enumerate(zip(a, b)):
        xc = x[0] if x[0] >= 0 else ncls
        if xc != y[0] or x[1] != y[1] or x[2] != y[2]:
            return "token %d: real (%d, %r, %r) lean (%d, %r, %r)" % (i, xc, x[1], x[2], y[0], y[1], y[2])
    return None


def value_changes(cap):
    """positions where the REAL productions changed the text of the file (C04): list of (index, old, new)"""
    a, b = cap["before"], cap["after"]
    if a is None or b is None:
        return []
    if len(a) != len(b):
        if "".join(t[1] for t in a) != "".join(t[1] for t in b):
            return [(-1, "".join(t[1] for t in a)[-60:], "".join(t[1] for t in b)[-60:])]
        return []
    return [(i, x[1], y[1]) for i, (x, y) in enumerate(zip(a, b)) if x[1] != y[1]]


def corrupt(text, rng):
    import props_c19

    return props_c19.corrupt(text, rng)


def token_corrupt(text, rng):
    """token deletions / swaps inside one line (keeps the lexical structure of the other lines)"""
    from vsg import tokens

    lines = text.split("\n")
    for _ in range(8):
        i = rng.randrange(len(lines))
        toks = [t for t in tokens.create(lines[i]) if t != ""]
        code = [k for k, t in enumerate(toks) if not t.isspace()]
        if len(code) < 2 or "--" in toks:
            continue
        if rng.random() < 0.5:
            del toks[rng.choice(code)]
            kind = "delete-token"
        else:
            a, b = rng.sample(code, 2)
            toks[a], toks[b] = toks[b], toks[a]
            kind = "swap-tokens"
        lines[i] = "".join(toks)
        return "\n".join(lines), kind
    return text, "unchanged"


def one(text, name, res, label):
    cap = real_run(text, name)
    if cap["before"] is None:
        res["skipped"] += 1
        return
    lean = lean_run(cap["before"], name)
    res["runs"] += 1
    res["tokens"] += len(cap["before"])
    res["outcomes"][cap["outcome"][0]] += 1
    for k, v in lean["cov"].items():
        res["cov"][k] += v
    if lean["head"].startswith("err Unmodelled"):
        res["unmodelled"] += 1
    d = compare(cap, lean)
    if d is not None:
        res["breaks"].append({"input": label, "diff": d, "real_site": cap.get("site"), "text": text if len(text) < 4000 else None})
    vc = value_changes(cap)
    if vc:
        res["value_changes"].append({"input": label, "changes": vc[:5], "outcome": cap["outcome"][0]})
    if lean["ins"] or lean["del"]:
        res["len_ops"] += 1
    # link theorem (Prog.call_link): a run whose executed functions avoid the masked ones must be reproduced by the
    # MASKED table without `Unmodelled`; then the masked-table theorems (length, values) hold for this very run
    for chk in FRAGMENTS:
        md, bad = masked_driver(chk)
        if bad & set(lean["cov"]):
            continue
        lm = lean_run(cap["before"], name, d=md)
        if lm["head"] == lean["head"] and lm["after"] == lean["after"] and not lm["head"].startswith("err Unmodelled"):
            res["inside"][chk] += 1
        else:
            res["breaks"].append({"input": label, "diff": "masked table (%s) differs from the full table although no masked function was executed: %s vs %s" % (chk, lm["head"], lean["head"]), "real_site": None, "text": None})


def job(args):
    path, kinds, ncorrupt = args
    res = {"runs": 0, "tokens": 0, "skipped": 0, "unmodelled": 0, "len_ops": 0, "outcomes": collections.Counter(), "cov": collections.Counter(), "breaks": [], "value_changes": [], "inside": collections.Counter()}
    try:
        text = gen_inputs.read_text(path)
    except OSError:
        return res
    rel = common.rel(path)
    one(text, rel, res, {"path": rel, "variant": None})
    for k in kinds:
        rng = random.Random("prog/%d/%s/%s" % (common.seed(), rel, k))
        try:
            v = gen_inputs.variant(text, rng, k)
        except Exception:  # noqa: BLE001
            continue
        if v != text:
            one(v, rel, res, {"path": rel, "variant": k, "seed": common.seed()})
    for c in range(ncorrupt):
        rng = random.Random("progc/%d/%s/%d" % (common.seed(), rel, c))
        t, kind = (corrupt(text, rng) if c % 2 == 0 else token_corrupt(text, rng))
        one(t, rel, res, {"path": rel, "corrupt": kind, "n": c, "seed": common.seed()})
    return res


def plan(tier, files):
    rng = common.rng("prog-plan")
    jobs = []
    nvar = 400 if tier == "quick" else 4000
    ncor = 600 if tier == "quick" else 6000
    var_files = set(rng.sample(files, min(len(files), nvar)))
    cor_files = collections.Counter(rng.choice(files) for _ in range(ncor))
    for f in files:
        kinds = [rng.choice(VARIANT_KINDS)] if f in var_files else []
        jobs.append((f, kinds, cor_files.get(f, 0)))
    return jobs


def sweep(tier, files=None):
    """run the correspondence; returns the aggregate (used by run() and by the hooks of C04 / C05 / C19)"""
    files = files if files is not None else gen_inputs.corpus_files()
    jobs = plan(tier, files)
    agg = {"runs": 0, "tokens": 0, "skipped": 0, "unmodelled": 0, "len_ops": 0, "outcomes": collections.Counter(), "cov": collections.Counter(), "breaks": [], "value_changes": [], "inside": collections.Counter()}
    with multiprocessing.Pool(WORKERS, initializer=_init) as pool:
        for r in pool.imap_unordered(job, jobs, chunksize=8):
            for k in ("runs", "tokens", "skipped", "unmodelled", "len_ops"):
                agg[k] += r[k]
            agg["outcomes"].update(r["outcomes"])
            agg["cov"].update(r["cov"])
            agg["inside"].update(r["inside"])
            agg["breaks"] += r["breaks"]
            agg["value_changes"] += r["value_changes"]
    return agg


def cached_sweep(tier, files=None):
    """one sweep per (tree, tier, seed): C04, C05, C19 and PROG share it"""
    if files is not None:
        return sweep(tier, files)
    key = os.path.join(common.CACHE, "prog-sweep-%s-%s-%d.json" % (common.tree_hash(), tier, common.seed()))
    try:
        agg = json.load(open(key))
        agg["cov"] = collections.Counter({int(k): v for k, v in agg["cov"].items()})
        agg["outcomes"] = collections.Counter(agg["outcomes"])
        agg["inside"] = collections.Counter(agg.get("inside", {}))
        return agg
    except (OSError, ValueError):
        pass
    agg = sweep(tier, None)
    try:
        os.makedirs(common.CACHE, exist_ok=True)
        with open(key, "w") as f:
            json.dump(agg, f)
    except OSError:
        pass
    return agg


def extra(res, tier):
    """hook for C04 / C05 / C19 (small insertion in props_c04.py / props_c05.py / props_c19.py): the layer-P
    correspondence on the corpus + variants + corrupted inputs; for C04 also: the REAL productions must not change
    the text of a token (a fixed-value class assigned to a token with another text REPLACES it)"""
    agg = hook(res, tier, None)
    if res.prop == "C04":
        for v in agg["value_changes"][:5]:
            res.fail("classify/design_file.tokenize", "tokenTextChanged", v, v["input"])
    return agg


def hook(res, tier, files=None, max_breaks=5):
    """the correspondence as a sub-step of another check (C04 / C05 / C19): records proof breaks and coverage in `res`"""
    t0 = time.time()
    agg = cached_sweep(tier, files)
    info = json.load(open(os.path.join(common.CACHE, "prog.json")))
    for b in agg["breaks"][:max_breaks]:
        res.proof_break("correspondence layer P (translated productions) vs real design_file.tokenize", b)
    executed = sorted(agg["cov"])
    # which functions are inside the syntactic fragments of the theorems (asked from the driver: `failingNames C progTable`)
    frag = {}
    try:
        import leanio

        d = leanio.Driver("prog")
        idx = {f["key"]: f["idx"] for f in info["functions"]}
        exe = set(executed)
        for chk in ("noLen", "value", "noRaise", "noIndex"):
            names = [n for n in d.ask("FAILING\t" + chk).split(";") if n]
            out_exec = sorted(n for n in names if idx.get(n) in exe)
            frag[chk] = {"functions_outside": len(names), "functions_inside": len(info["functions"]) - len(names), "executed_outside": len(out_exec), "executed_inside": len(exe) - len(out_exec), "executed_outside_names": out_exec}
        # >>> WP1c: the navigation fragment of C05 (closed set of functions that touch the token list only through the helpers
        # whose interpreted semantics is proved equal to the hand models)
        nav = [n for n in d.ask("NAVFRAG").split(";") if n]
        nav_exec = sorted(n for n in nav if idx.get(n) in exe)
        frag["nav"] = {"functions_inside": len(nav), "functions_outside": len(info["functions"]) - len(nav), "executed_inside": len(nav_exec), "executed_outside": len(exe) - len(nav_exec), "executed_outside_names": []}
        ch = [n for n in d.ask("CHAINS").split(";") if n]
        ch_exec = sorted(n for n in ch if idx.get(n) in exe)
        frag["chains"] = {"functions_inside": len(ch), "functions_outside": len(info["functions"]) - len(ch), "executed_inside": len(ch_exec), "executed_outside": len(exe) - len(ch_exec), "executed_outside_names": []}
        # <<< WP1c
        # >>> WP1d: chains with conditionals on utils.is_next_token
        ic = [n for n in d.ask("IFCHAINS").split(";") if n]
        ic_exec = sorted(n for n in ic if idx.get(n) in exe)
        frag["ifchains"] = {"functions_inside": len(ic), "functions_outside": len(info["functions"]) - len(ic), "executed_inside": len(ic_exec), "executed_outside": len(exe) - len(ic_exec), "executed_outside_names": []}
        dt = [n for n in d.ask("DETECTORS").split(";") if n]
        dt_exec = sorted(n for n in dt if idx.get(n) in exe)
        frag["detectors"] = {"functions_inside": len(dt), "functions_outside": len(info["functions"]) - len(dt), "executed_inside": len(dt_exec), "executed_outside": len(exe) - len(dt_exec), "executed_outside_names": []}
        # <<< WP1d
        d.close()
    except Exception as ex:  # noqa: BLE001
        frag = {"error": repr(ex)}
    res.coverage["layerP_fragments"] = frag
    res.coverage["layerP"] = {
        "runs": agg["runs"],
        "tokens": agg["tokens"],
        "outcomes": dict(agg["outcomes"]),
        "breaks": len(agg["breaks"]),
        "functions": len(info["functions"]),
        "opaque": [o["key"] for o in info["opaque"]],
        "executed": len(executed),
        "lean_unmodelled_runs": agg["unmodelled"],
        "runs_with_insert_or_pop": agg["len_ops"],
        "real_value_changes": len(agg["value_changes"]),
        "runs_inside_masked_fragment": dict(agg["inside"]),
        "wall_s": round(time.time() - t0, 1),
    }
    return agg


def run(prop, tier):
    res = common.Result(prop, tier)
    import gen_tables

    gen_tables.generate()
    info = json.load(open(os.path.join(common.CACHE, "prog.json")))
    ok_model, out_model, _ = common.lake_build(["VsgModel", "driver"])
    if not ok_model:
        for d in common.failed_decls(out_model):
            res.proof_break("model build: %s:%s %s" % (d["file"], d["line"], d["decl"]), d["message"])
        return res.finish(1, 0, "lake build VsgModel driver", [])
    files = gen_inputs.corpus_files()
    if os.environ.get("VERIF_PROG_LIMIT"):
        files = files[: int(os.environ["VERIF_PROG_LIMIT"])]
    agg = hook(res, tier, files)
    names = {f["idx"]: f["key"] for f in info["functions"]}
    opaque = {o["idx"] for o in info["opaque"]}
    executed = set(agg["cov"])
    never = [names[i] for i in sorted(names) if i not in executed and i not in opaque]
    res.coverage["evaluations"] = agg["runs"]
    res.coverage["distinct_nontrivial"] = sum(v for k, v in agg["outcomes"].items())
    res.coverage["layerP"]["never_executed"] = never
    res.coverage["layerP"]["value_change_samples"] = agg["value_changes"][:10]
    res.coverage["samples"] = [b["input"] for b in agg["breaks"][:5]]
    print("PROG: %d runs, %d tokens, outcomes %s" % (agg["runs"], agg["tokens"], dict(agg["outcomes"])))
    print("PROG: %d functions, %d opaque, %d executed, %d translated but never executed" % (len(names), len(opaque), len(executed), len(never)))
    print("PROG: %d correspondence break(s), %d runs end in Unmodelled, %d runs with insert/pop, %d real runs change a token's text" % (len(agg["breaks"]), agg["unmodelled"], agg["len_ops"], len(agg["value_changes"])))
    for chk, fr in res.coverage.get("layerP_fragments", {}).items():
        if isinstance(fr, dict):
            print("PROG: fragment %-8s %d of %d functions inside; of the %d executed functions %d inside" % (chk, fr["functions_inside"], len(names), len(executed), fr["executed_inside"]))
    print("PROG: runs reproduced by the masked tables (theorems of C04 transfer by Prog.call_link): %s of %d" % (dict(agg["inside"]), agg["runs"]))
    for b in agg["breaks"][:8]:
        print("  BREAK", json.dumps({k: v for k, v in b.items() if k != "text"})[:600])
    for v in agg["value_changes"][:5]:
        print("  VALUE-CHANGE", json.dumps(v)[:400])
    return res.finish(1, 0 if agg["breaks"] else 1, "./check PROG " + tier, [])


def replay(prop, path):
    obj = json.load(open(path))
    print(json.dumps(obj, indent=1)[:4000])
    return 0


if __name__ == "__main__":
    sys.exit(run("PROG", sys.argv[1] if len(sys.argv) > 1 else "quick"))
