"""
C18 — the token index and every rule's region of interest mirror the token list.

Decided by
  (1) the Lean theorems of VsgProofs/Properties/C18.lean (process_tokens against its specification, remap,
      value-only edits, slice-exactness of the modelled extractors, update overwrites the analysed tokens, the
      remap=False table fact);
  (2) correspondence: `process_tokens`, every modelled look-up of token_map.New and every modelled extractor of
      vsg/vhdlFile/extract against the Lean driver (`driver tokmap`) on real parsed files, with the arguments real
      rules use;
  (3) invariant search on the REAL code: instrumented fix + check runs; at every extractor call and every
      `_get_tokens_of_interest` the Lean driver recomputes the index from the token list and compares it with the
      stored `oTokenMap`, and the Lean slice checker judges every region of interest (identity of the token objects
      by serial number, modulo beginning_of_file pseudo tokens, `iEndIndex = start + len`).
"""
import collections
import inspect
import json
import multiprocessing
import os
import random
import sys
import time
import traceback

sys.path.insert(0, os.path.dirname(os.path.abspath(__file__)))

import common  # noqa: E402
import gen_inputs  # noqa: E402
import sweep  # noqa: E402
import props_c18x  # noqa: E402  (WP3: extractors of Extract2*.lean)

_W = sweep._W

# ------------------------------------------------------------------ wire


def enc_map(dMap):
    parts = []
    for b in sorted(dMap, key=lambda x: (x is None, x)):
        for s in sorted(dMap[b], key=lambda x: (x is None, x)):
            parts.append("%s:%s=%s" % (b, s, ",".join(map(str, dMap[b][s]))))
    return ";".join(parts)


def show_opt(v):
    return "N" if v is None else str(v)


def show_bool(v):
    return "true" if v else "false"


class AsyncDriver:
    """`driver tokmap` with a reader thread: replies are collected while requests are still being written, so
    neither pipe can fill up while the other side is blocked"""

    def __init__(self, mode):
        import queue
        import subprocess
        import threading

        import leanio

        self.p = subprocess.Popen([leanio.DRIVER, mode], stdin=subprocess.PIPE, stdout=subprocess.PIPE, text=True, encoding="utf-8", bufsize=1 << 20)
        self.q = queue.Queue()

        def rd():
            for line in self.p.stdout:
                self.q.put(line.rstrip("\n"))
            self.q.put(None)

        self.t = threading.Thread(target=rd, daemon=True)
        self.t.start()

    def send(self, line):
        self.p.stdin.write(line)
        self.p.stdin.write("\n")

    def flush(self):
        self.p.stdin.flush()

    def read(self):
        r = self.q.get(timeout=600)
        if r is None:
            raise RuntimeError("driver tokmap ended")
        return r

    def ask(self, line):
        self.send(line)
        self.flush()
        return self.read()


def map_fingerprint(tm):
    """cheap O(#keys) summary of the stored index: any append / extend / remove on one of its lists changes it"""
    n = 0
    tot = 0
    last = 0
    for d in tm.dMap.values():
        for l in d.values():
            n += 1
            k = len(l)
            tot += k
            if k:
                last += l[-1] + l[0]
    return (id(tm), id(tm.dMap), n, tot, last, getattr(tm, "iMaxToken", None))


class Session:
    """keeps the driver's copy of the token list / stored index in step with one vhdlFile object.  Verdict
    requests are posted without waiting; `drain` reads the replies in order and hands them to the callbacks."""

    def __init__(self, drv, ci, kinds):
        self.drv = drv
        self.ci = ci
        self.kinds = kinds  # class index -> kind name
        self.ser = {}
        self.keep = []
        self.sent = None  # list of objects as last sent
        self.sent_lens = None
        self.sent_map = None
        self.sent_fp = None
        self.calls_since_full = 0
        self.pending = []
        self.n_tok_sync = 0
        self.n_map_sync = 0
        self.unknown_classes = set()

    # -- transport
    def post(self, line, cb):
        self.drv.send(line)
        self.pending.append(cb)
        if len(self.pending) >= 3000:
            self.drain()

    def drain(self):
        if not self.pending:
            return
        self.drv.flush()
        pend, self.pending = self.pending, []
        for cb in pend:
            rep = self.drv.read()
            if cb is not None:
                cb(rep)

    def ask(self, line):
        self.drain()
        return self.drv.ask(line)

    # -- tokens
    def serial(self, o):
        s = self.ser.get(id(o))
        if s is None:
            s = len(self.keep)
            self.ser[id(o)] = s
            self.keep.append(o)
        return s

    def is_bof(self, o):
        return self.kinds.get(self.ci.of(o)) == "bof"

    def sync_tokens(self, lAll, with_len=False, with_hier=False):
        changed = self.sent is None or self.sent != lAll  # token objects define no __eq__: identity
        if with_hier and [getattr(o, "hierarchy", None) for o in lAll] != getattr(self, "sent_hier", None):  # WP3
            changed = True
        lens = None
        if with_len:
            lens = [len(o.get_value()) for o in lAll]
            if lens != self.sent_lens:
                changed = True
        if not changed:
            return False
        ncls = len(self.kinds)
        ci = self.ci
        parts = []
        for o in lAll:
            c = ci.of(o)
            if c < 0:
                self.unknown_classes.add(type(o).__module__ + "." + type(o).__qualname__)
            parts.append("%d:%d:%d" % (self.serial(o), c if c >= 0 else ncls, len(o.value)))
            if isinstance(getattr(o, "hierarchy", None), int):  # WP3: optional 4th field
                parts[-1] += ":%d" % o.hierarchy
        self.drv.send("TOKS\t" + " ".join(parts))
        self.sent = list(lAll)
        self.sent_hier = [getattr(o, "hierarchy", None) for o in lAll]  # WP3
        self.sent_lens = lens if lens is not None else [len(o.value) for o in lAll]
        self.sent_map = None
        self.sent_fp = None
        self.n_tok_sync += 1
        return True

    def sync_index(self, oTokenMap, cb, force=False):
        """posts the stored index for a verdict (`fresh` | `stale <key>`) if it or the token list changed since
        the last one.  The full serialisation is made when the cheap fingerprint changed, on `force`, and every
        64th call; otherwise the last verdict stands (same inputs, same pure function)."""
        fp = map_fingerprint(oTokenMap)
        self.calls_since_full += 1
        if fp == self.sent_fp and not force and self.calls_since_full < 64:
            return False
        self.calls_since_full = 0
        self.sent_fp = fp
        m = enc_map(oTokenMap.dMap) + "\t" + str(getattr(oTokenMap, "iMaxToken", 0))
        if m == self.sent_map:
            return False
        self.sent_map = m
        self.n_map_sync += 1
        self.post("STORED\t" + m, cb)
        return True

    def runs(self, toks):
        """serial runs of a token list: `a-b`, `a`, `bN`"""
        ser = self.ser
        try:
            ss = [ser[id(o)] for o in toks]
        except KeyError:
            ss = None
        if ss is not None and ss and ss[-1] - ss[0] == len(ss) - 1 and ss == list(range(ss[0], ss[0] + len(ss))):
            if not any(self.is_bof(o) for o in (toks[0], toks[-1])):
                return "%d-%d" % (ss[0], ss[-1]) if len(ss) > 1 else str(ss[0])
        out = []
        run = None
        for o in toks:
            if self.is_bof(o):
                if run:
                    out.append(run)
                    run = None
                out.append("b%d" % self.serial(o))
                continue
            s = self.serial(o)
            if run and run[1] + 1 == s:
                run[1] = s
            else:
                if run:
                    out.append(run)
                run = [s, s]
        if run:
            out.append(run)
        return " ".join(x if isinstance(x, str) else ("%d-%d" % (x[0], x[1]) if x[1] > x[0] else str(x[0])) for x in out)

    def post_tois(self, lt, cb):
        """one request for all regions of one call; reply `ok` or `bad i,j,…` (positions in `lt`)"""
        parts = []
        for t in lt:
            s = getattr(t, "iStartIndex", None)
            e = getattr(t, "iEndIndex", None)
            if not (s is None or (isinstance(s, int) and not isinstance(s, bool))) or not (e is None or (isinstance(e, int) and not isinstance(e, bool))):
                s, e = None, None  # not even a position: judged `notSlice` by the checker (start None)
            parts.append("%s,%s,%s" % (show_opt(s), show_opt(e), self.runs(t.lTokens)))
        self.post("TOIS\t" + "|".join(parts), cb)

    def canon_toi(self, t):
        toks = ".".join("b" if self.is_bof(o) else str(self.serial(o)) for o in t.lTokens)
        v = t.sTokenValue
        return "%s,%s,%s,%s" % (show_opt(t.iStartIndex), t.iLine, show_opt(v) if (v is None or isinstance(v, int)) else "?", toks)


# ------------------------------------------------------------------ modelled functions


def _cls(ci, c):
    i = ci.of_class(c)
    if i < 0:
        raise ValueError("class not in table")
    return str(i)


def _clist(ci, l):
    return ",".join(_cls(ci, c) for c in l)


def _nat(n):
    if not isinstance(n, int) or isinstance(n, bool) or n < 0:
        raise ValueError("not a natural number")
    return str(n)


def _b(x):
    return "1" if x else "0"


def _bind(fn, args, kwargs):
    ba = inspect.signature(fn).bind(*args, **kwargs)
    ba.apply_defaults()
    return ba.arguments


def enc_extract(name, fn, ci, args, kwargs):
    """wire arguments of a modelled extractor call, or None if the call is outside the model"""
    try:
        a = _bind(fn, args, kwargs)
        w2 = props_c18x.enc_extract2(name, a, ci)  # WP3
        if w2 is not None:
            return w2
        if name == "get_tokens_matching":
            return [name, _clist(ci, a["lTokens"])]
        if name == "get_tokens_bounded_by":
            return [name, _cls(ci, a["oStart"]), _cls(ci, a["oEnd"]), _b(a["include_trailing_whitespace"]), _b(a["bExcludeLastToken"]), _b(a["bIncludeTillEndOfLine"]), _b(a["bIncludeTillBeginningOfLine"])]
        if name == "get_tokens_at_beginning_of_line_matching":
            return [name, _clist(ci, a["lTokens"])]
        if name == "get_sequence_of_tokens_matching":
            return [name, _clist(ci, a["lTokens"]), _b(a["bIgnoreIfLineStart"])]
        if name == "get_token_and_n_tokens_before_it":
            return [name, _clist(ci, a["lTokens"]), _nat(a["iTokens"])]
        if name == "get_token_and_n_tokens_after_it":
            return [name, _clist(ci, a["lTokens"]), _nat(a["iTokens"])]
        if name == "get_m_tokens_before_and_n_tokens_after_token":
            return [name, _nat(a["iM"]), _nat(a["iN"]), _clist(ci, a["lTokens"])]
        if name == "get_n_token_after_tokens":
            return [name, _nat(a["iToken"]), _clist(ci, a["lTokens"])]
        if name == "get_tokens_matching_in_range_bounded_by_tokens":
            return [name, _clist(ci, a["lTokens"]), _cls(ci, a["oStart"]), _cls(ci, a["oEnd"])]
        if name == "get_line_above_line_starting_with_token":
            if a["bIncludeComments"]:
                return None
            return [name, _clist(ci, a["lTokens"])]
        if name == "get_line_preceding_line":
            if a["bSkipComments"]:
                return None
            return [name, _nat(a["iLine"]), _nat(a["iNumLines"])]
        if name == "get_line_count_between_tokens":
            return [name, _cls(ci, a["oStart"]), _cls(ci, a["oEnd"])]
        if name == "get_all_tokens":
            return [name]
        if name == "get_lines_with_length_that_exceed_column":
            return [name, _nat(a["iColumn"])]
    except (ValueError, TypeError, KeyError):
        return None
    return None


MODELLED_EXTRACTORS = [
    "get_tokens_matching",
    "get_tokens_bounded_by",
    "get_tokens_at_beginning_of_line_matching",
    "get_sequence_of_tokens_matching",
    "get_token_and_n_tokens_before_it",
    "get_token_and_n_tokens_after_it",
    "get_m_tokens_before_and_n_tokens_after_token",
    "get_n_token_after_tokens",
    "get_tokens_matching_in_range_bounded_by_tokens",
    "get_line_above_line_starting_with_token",
    "get_line_preceding_line",
    "get_line_count_between_tokens",
    "get_all_tokens",
    "get_lines_with_length_that_exceed_column",
]
MODELLED_EXTRACTORS += props_c18x.MODELLED2  # WP3

PY_ERRORS = (IndexError, KeyError, TypeError, AttributeError, ValueError)


def flatten_tois(r):
    from vsg.vhdlFile.extract import tokens as xt

    out = []
    if isinstance(r, xt.New):
        out.append(r)
    elif isinstance(r, (list, tuple)):
        for x in r:
            if isinstance(x, xt.New):
                out.append(x)
            elif isinstance(x, (list, tuple)):
                out.extend(y for y in x if isinstance(y, xt.New))
    return out


# ------------------------------------------------------------------ look-up correspondence


def lookup_cases(o, ci, rng, n):
    """(wire args, thunk on the real object) for random look-ups, out-of-range indices included"""
    tm = o.oTokenMap
    lAll = o.lAllObjects
    N = len(lAll)
    present = sorted({ci.of(t) for t in lAll if ci.of(t) >= 0})
    allcls = ci.classes
    crs = tm.dMap.get("parser", {}).get("carriage_return", [])

    def idx():
        r = rng.random()
        if r < 0.15:
            return rng.choice([-3, -2, -1, 0, 1, 2, N - 2, N - 1, N, N + 1, N + 5])
        if r < 0.4 and crs:
            return rng.choice(crs) + rng.choice([-2, -1, 0, 1, 2])
        return rng.randrange(0, max(N, 1))

    def cls():
        if present and rng.random() < 0.85:
            return rng.choice(present)
        return rng.randrange(len(allcls))

    cases = []
    for _ in range(n):
        k = rng.randrange(17)
        i = idx()
        c = cls()
        C = allcls[c]
        if k == 0:
            cases.append((["get_token_indexes", str(c)], lambda C=C: ",".join(map(str, tm.get_token_indexes(C)))))
        elif k == 1:
            j = idx()
            cases.append((["get_token_indexes_between_indexes", str(c), str(i), str(j)], lambda C=C, i=i, j=j: ",".join(map(str, tm.get_token_indexes_between_indexes(C, i, j)))))
        elif k == 2:
            cases.append((["get_line_number_of_index", str(i)], lambda i=i: str(tm.get_line_number_of_index(i))))
        elif k == 3:
            cases.append((["get_index_of_carriage_return_after_index", str(i)], lambda i=i: str(tm.get_index_of_carriage_return_after_index(i))))
        elif k == 4:
            cases.append((["get_index_of_carriage_return_before_index", str(i)], lambda i=i: show_opt(tm.get_index_of_carriage_return_before_index(i))))
        elif k == 5:
            cases.append((["get_index_of_token_after_index", str(c), str(i)], lambda C=C, i=i: show_opt(tm.get_index_of_token_after_index(C, i))))
        elif k == 6:
            d = cls()
            D = allcls[d]

            def pair(C=C, D=D):
                a, b = tm.get_token_pair_indexes(C, D)
                return ",".join(map(str, a)) + "|" + ",".join(map(str, b))

            cases.append((["get_token_pair_indexes", str(c), str(d)], pair))
        elif k == 7:
            cases.append((["is_token_at_index", str(c), str(i)], lambda C=C, i=i: show_bool(tm.is_token_at_index(C, i))))
        elif k == 8:
            cases.append((["is_token_at_index_whitespace", str(i)], lambda i=i: show_bool(tm.is_token_at_index_whitespace(i))))
        elif k == 9:
            cases.append((["is_token_at_index_whitespace_or_comment", str(i)], lambda i=i: show_bool(tm.is_token_at_index_whitespace_or_comment(i))))
        elif k == 10:
            e = rng.random() < 0.5
            cases.append((["get_index_of_next_non_whitespace_token", str(i), _b(e)], lambda i=i, e=e: show_opt(tm.get_index_of_next_non_whitespace_token(i, e))))
        elif k == 11:
            cases.append((["get_index_of_previous_non_whitespace_token_before_index", str(i)], lambda i=i: show_opt(tm.get_index_of_previous_non_whitespace_token_before_index(i))))
        elif k == 12:
            cases.append((["get_index_of_previous_non_whitespace_token", str(i)], lambda i=i: show_opt(tm.get_index_of_previous_non_whitespace_token(i))))
        elif k == 13:
            cases.append((["get_index_of_next_non_whitespace_token_after_index_ignoring_comments", str(i)], lambda i=i: show_opt(tm.get_index_of_next_non_whitespace_token_after_index_ignoring_comments(i))))
        elif k == 14:
            cases.append((["is_previous_non_whitespace_token", str(i), str(c)], lambda C=C, i=i: show_bool(tm.is_previous_non_whitespace_token(i, C))))
        elif k == 15:
            l = rng.choice([-1, 0, 1, 2, 3, len(crs), len(crs) + 1, len(crs) + 2, rng.randrange(1, max(len(crs), 2))])
            cases.append((["get_index_of_line", str(l)], lambda l=l: str(tm.get_index_of_line(l))))
        else:
            # the pairing on its own, with lists that need not come from one file
            a = sorted(rng.sample(range(60), rng.randrange(0, 7)))
            b = sorted(rng.sample(range(60), rng.randrange(0, 7)))
            if rng.random() < 0.3:
                b = sorted(b + [rng.choice(b)]) if b else b  # duplicates (the logical_operator alias can produce them)

            def pairing(a=a, b=b):
                from vsg import token_map

                x, y = token_map.extract_start_end_indexes(a, b)
                return ",".join(map(str, x)) + "|" + ",".join(map(str, y))

            cases.append((["extract_start_end_indexes", ",".join(map(str, a)), ",".join(map(str, b))], pairing))
    return cases


def real_result(thunk):
    try:
        return "ok " + thunk()
    except PY_ERRORS as e:
        return "raise " + type(e).__name__


# ------------------------------------------------------------------ one job


def _init():
    sweep._init()
    import vsgrun

    ci = _W["ci"]
    tables = _W["tables"]
    import importlib

    classes = []
    for r in tables["classes"]:
        mod, _, qn = r["name"].rpartition(".")
        classes.append(getattr(importlib.import_module(mod), qn))
    ci.classes = classes
    by_cls = {c: i for i, c in enumerate(classes)}
    ci.of_class = lambda c: by_cls.get(c, -1)
    _W["kinds"] = {r["idx"]: r["kind"] for r in tables["classes"]}
    _W["drv18"] = AsyncDriver("tokmap")
    _W["toiowner"] = {r["id"]: sweep.short_owner(r["toiOwner"]) for r in tables["rules"]}


def unknown_class_guard(S, out):
    """a token class the generated class table does not list: the translator is incomplete — the model cannot
    mirror the code for this file; reported as a correspondence break, never as a failure of the real code"""
    if S.unknown_classes:
        out["failures"] = [f for f in out["failures"] if f["kind"] != "staleIndex"]
        out["breaks"] = [b for b in out["breaks"] if not b["what"].startswith("correspondence")]
        out["breaks"].append({"what": "class table (harness/gen_tables.py) misses token classes", "detail": {"job": out["job"], "classes": sorted(S.unknown_classes)[:8]}})


def run_job(job):
    try:
        return run_job_inner(job)
    except Exception:  # noqa: BLE001 - an error of the harness, never a violation
        return {"job": {k: job[k] for k in job if k != "text"}, "parse": "harness: " + traceback.format_exc()[-1200:], "failures": [], "breaks": [], "stats": {}}


def run_job_inner(job):
    if job.get("wp3"):  # WP3: witness / synthetic jobs
        return props_c18x.run_special(job, sys.modules[__name__])
    import vsgrun
    from vsg import exceptions as vexc
    from vsg import token_map
    from vsg.vhdlFile import extract

    feats = set(job["features"])
    out = {"job": {k: job[k] for k in job if k != "text"}, "parse": "ok", "failures": [], "breaks": [], "stats": collections.Counter(), "pairs": set(), "fnstats": collections.Counter()}
    stats = out["stats"]
    cla, oc, style, dicts = sweep.job_config(job)
    text = sweep.job_text(job)
    lines = vsgrun.text_to_lines(text)
    try:
        o = vsgrun.parse(lines, cla, oc)
    except vexc.ClassifyError:
        out["parse"] = "rejected"
        return out
    except Exception:  # noqa: BLE001 - C19's business
        out["parse"] = "crash"
        return out
    ci = _W["ci"]
    drv = _W["drv18"]
    S = Session(drv, ci, _W["kinds"])
    for t in o.lAllObjects:
        S.serial(t)
    desc = lambda: sweep.describe(job, style, dicts, text)  # noqa: E731
    stats["tokens"] = len(o.lAllObjects)

    # ---------------- (2a) index + look-up correspondence on the parsed file
    if "index" in feats:
        S.sync_tokens(o.lAllObjects)
        rep = S.ask("MAP")
        real = enc_map(o.oTokenMap.dMap) + "\t" + str(o.oTokenMap.iMaxToken)
        stats["index_compared"] += 1
        if rep != real:
            out["breaks"].append({"what": "correspondence processTokens vs token_map.process_tokens", "detail": {"job": out["job"], "model": rep[:300], "real": real[:300]}})
        def cb0(v):
            if v != "fresh":
                out["failures"].append({"site": "vhdlFile.__init__", "kind": "staleIndex", "detail": "index of a freshly parsed file: %s" % v, "input": desc()})

        S.sync_index(o.oTokenMap, cb0, force=True)
        rng = random.Random("lk/%s/%s/%s" % (common.seed(), common.rel(job.get("path")), job.get("variant")))
        for wire, th in lookup_cases(o, ci, rng, job.get("nlookups", 60)):
            real = real_result(th)
            stats["lookups"] += 1
            if real.startswith("raise"):
                stats["lookups_raising"] += 1

            def cbl(model, real=real, wire=wire):
                if real != model:
                    out["breaks"].append({"what": "correspondence look-up %s" % wire[0], "detail": {"job": out["job"], "args": wire, "model": model[:200], "real": real[:200]}})

            S.post("LOOKUP\t" + "\t".join(wire), cbl)
        S.drain()

    if not (feats & {"inv", "replay"}):
        out["pairs"] = []
        unknown_class_guard(S, out)
        return out

    # ---------------- (2b) extractor replay and (3) invariant search during real fix + check runs
    rl = vsgrun.new_rule_list(o, oc)
    cur = {"rule": None, "mode": None, "last_changer": None}
    tag = {}  # id(toi) -> extractor function that returned it
    seen_calls = set()
    epoch = [0]
    saved = {}

    def check_index(site_hint, force=False):
        if S.sync_tokens(o.lAllObjects):
            epoch[0] += 1
        stats["index_checks"] += 1
        ctx = (cur["rule"], cur["mode"], cur["last_changer"], site_hint)

        def cb(v, ctx=ctx):
            stats["index_verdicts"] += 1
            if v != "fresh":
                site = ctx[2] or ctx[3]
                out["failures"].append({"site": site, "kind": "staleIndex", "detail": "%s when %s obtains its tokens (%s run); last rule that changed the file: %s" % (v, ctx[0], ctx[1], ctx[2]), "input": desc(), "rule": ctx[0]})

        S.sync_index(o.oTokenMap, cb, force)

    def check_tois(lt, site):
        todo = []
        for t in lt:
            k = id(t)
            sig = (epoch[0], getattr(t, "iStartIndex", None), getattr(t, "iEndIndex", None), len(t.lTokens))
            e = tag.get(k)
            if e is not None and e[1] == sig:
                continue  # the same region against the same token list: already judged
            tag[k] = (e[0] if e is not None else site, sig, t)
            todo.append(t)
        if not todo:
            return 0
        ctx = (cur["rule"], cur["mode"])
        sites = [tag[id(t)][0] for t in todo]
        info = [(getattr(t, "iStartIndex", None), getattr(t, "iEndIndex", None), len(t.lTokens), getattr(t, "iLine", None)) for t in todo]

        def cb(v, ctx=ctx, sites=sites, info=info):
            stats["tois_judged"] += len(info)
            if v == "ok":
                return
            if not v.startswith("bad "):
                raise RuntimeError("driver: " + v[:200])
            for i in v[4:].split(","):
                i = int(i)
                out["failures"].append({"site": sites[i], "kind": "toiNotSlice", "detail": "%s (%s run): start=%r end=%r ntokens=%d line=%r" % (ctx[0], ctx[1], info[i][0], info[i][1], info[i][2], info[i][3]), "input": desc(), "rule": ctx[0]})

        S.post_tois(todo, cb)
        return len(todo)

    def wrap_extract(name, fn):
        def w(*a, **k):
            if "inv" in feats:
                check_index(name)
            r = fn(*a, **k)
            lt = flatten_tois(r)
            for t in lt:
                tag[id(t)] = (name, None, t)
            if "inv" in feats:
                n = check_tois(lt, name)
                if n:
                    out["pairs"].add((name, cur["rule"]))
                # an extractor must not disturb the index it reads
                if S.sent_fp is not None and map_fingerprint(o.oTokenMap) != S.sent_fp:
                    check_index(name)
            if "replay" in feats and name in MODELLED_EXTRACTORS:
                wire = enc_extract(name, fn, ci, a, k)
                out["fnstats"][name + ("" if wire else ":outside-model")] += 1
                if wire is not None:
                    if S.sync_tokens(o.lAllObjects, with_len=(name in props_c18x.WITH_LEN), with_hier=(name in props_c18x.HIER)):
                        epoch[0] += 1
                    S.sync_index(o.oTokenMap, None)
                    key = (epoch[0], S.n_map_sync, tuple(wire))
                    if key not in seen_calls:
                        seen_calls.add(key)
                        real = props_c18x.canon_result(S, name, r, lt)  # WP3: meta data per extractor; WP3b: int results
                        stats["extract_replayed"] += 1
                        if lt:
                            stats["extract_replayed_nonempty"] += 1

                        def cbx(model, real=real, wire=wire, rule=cur["rule"], snap=props_c18x.snapshot(name, S.sent)):
                            model = props_c18x.fix_model(name, model, snap)  # WP3
                            if model == "outside":  # WP3: the model declares the call outside its domain
                                out["fnstats"][name + ":outside-model"] += 1
                                return
                            if real != model:
                                out["breaks"].append({"what": "correspondence extractor %s" % name, "detail": {"job": out["job"], "rule": rule, "args": wire, "model": model[:300], "real": real[:300]}})

                        S.post("EXTRACT\t" + "\t".join(wire), cbx)
            return r

        return w

    def wrap_extract_raising(name, fn):
        inner = wrap_extract(name, fn)

        def w(*a, **k):
            try:
                return inner(*a, **k)
            except PY_ERRORS as e:
                # the real extractor raised: the model must raise the same error
                if "replay" in feats and name in MODELLED_EXTRACTORS and e.__traceback__ is not None:
                    wire = enc_extract(name, fn, ci, a, k)
                    if wire is not None:
                        S.sync_tokens(o.lAllObjects, with_hier=(name in props_c18x.HIER))
                        S.sync_index(o.oTokenMap, None)
                        model = S.ask("EXTRACT\t" + "\t".join(wire))
                        stats["extract_replayed_raising"] += 1
                        if model != "raise " + type(e).__name__:
                            out["breaks"].append({"what": "correspondence extractor %s" % name, "detail": {"job": out["job"], "rule": cur["rule"], "args": wire, "model": model[:300], "real": "raise " + type(e).__name__}})
                raise

        return w

    for name in dir(extract):
        fn = getattr(extract, name)
        if inspect.isfunction(fn):
            saved[name] = fn
            setattr(extract, name, wrap_extract_raising(name, fn))

    def wrap_rule(r):
        real_toi = getattr(r, "_get_tokens_of_interest", None)
        real_fix = r.fix
        real_analyze = r.analyze
        owner = _W["toiowner"].get(r.unique_id, r.unique_id)

        if real_toi is not None:

            def toi(oF):
                l = real_toi(oF)
                if "inv" in feats:
                    check_index(owner)
                    lt = flatten_tois(l) if l is not None else []
                    if check_tois(lt, owner):
                        out["pairs"].add((owner, r.unique_id))
                return l

            r._get_tokens_of_interest = toi

        def fix(oF, dFixOnly=None):
            cur["rule"], cur["mode"] = r.unique_id, "fix"
            before = list(oF.lAllObjects)
            vals = [t.value for t in before] if not r.remap else None
            try:
                return real_fix(oF, dFixOnly)
            finally:
                after = oF.lAllObjects
                if vals is not None and before == after and vals != [t.value for t in after]:
                    # a value-only step of a rule that does not re-index: the index must still be the index
                    stats["value_only_steps_remap_false"] += 1
                    if "inv" in feats:
                        check_index(_W["owner"].get(r.unique_id, r.unique_id), force=True)
                if len(before) != len(after) or any(a is not b for a, b in zip(before, after)):
                    cur["last_changer"] = _W["owner"].get(r.unique_id, r.unique_id)
                    stats["changed_steps"] += 1
                    if not r.remap:
                        stats["changed_steps_remap_false"] += 1
                    if "inv" in feats:
                        # the index the NEXT rule will read (remap or not)
                        check_index(_W["owner"].get(r.unique_id, r.unique_id), force=True)

        def analyze(oF):
            if cur["mode"] != "fix" or cur["rule"] != r.unique_id:
                cur["rule"], cur["mode"] = r.unique_id, "check"
            stats["analyses"] += 1
            return real_analyze(oF)

        r.fix = fix
        r.analyze = analyze

    for r in rl.rules:
        wrap_rule(r)

    exc = None
    try:
        if job.get("mode", "fix") == "fix":
            try:
                rl.fix(job.get("fix_phase", 7), job.get("skip_phase") or [], None)
            except Exception as e:  # noqa: BLE001 - C19's business; the invariant was checked up to here
                exc = e
            cur["mode"] = "check"
            cur["rule"] = None
        if exc is None:
            try:
                rl.clear_violations()
                rl.check_rules(bAllPhases=True, lSkipPhase=[])
            except Exception as e:  # noqa: BLE001
                exc = e
        if "inv" in feats:
            cur["rule"], cur["mode"] = "<end>", "end"
            check_index("rule_list.fix", force=True)
        S.drain()
    finally:
        for name, fn in saved.items():
            setattr(extract, name, fn)
    if exc is not None:
        stats["runs_with_exception"] += 1
    stats["tok_syncs"] = S.n_tok_sync
    stats["map_syncs"] = S.n_map_sync
    out["pairs"] = sorted(out["pairs"])
    unknown_class_guard(S, out)
    return out


# ------------------------------------------------------------------ jobs / run


def make_jobs(tier):
    rng = common.rng("c18jobs")
    files = gen_inputs.corpus_files()
    sample = list(files)
    rng.shuffle(sample)
    seedv = common.seed()
    jobs = []
    if tier == "quick":
        n_inv, n_replay, n_var, n_cfg, n_index = 150, 50, 40, 40, 260
    else:
        n_inv, n_replay, n_var, n_cfg, n_index = len(sample), 400, len(sample), len(sample), len(sample)
    for i, p in enumerate(sample[:n_inv]):
        feats = ["inv", "index"] + (["replay"] if i < n_replay else [])
        jobs.append({"path": p, "variant": "orig", "config": "default", "features": feats, "mode": "fix"})
    # the same invariant on re-laid-out inputs (more rules fire, more positions shift)
    for i in range(n_var):
        p = sample[(i * 5 + 1) % len(sample)]
        v = gen_inputs.VARIANTS[i % len(gen_inputs.VARIANTS)]
        feats = ["inv", "index"] + (["replay"] if tier != "quick" and i % 4 == 0 else [])
        jobs.append({"path": p, "variant": v, "vseed": seedv * 1000 + i, "config": "default", "features": feats, "mode": "fix"})
    cfgs = ["jcl", "upper", "all_enabled", "random", "random_jcl", "indent_only", "random"]
    for i in range(n_cfg):
        p = sample[(i * 7 + 3) % len(sample)]
        c = cfgs[i % len(cfgs)]
        j = {"path": p, "variant": "orig" if i % 3 else "messy", "vseed": seedv * 1000 + i, "config": c, "features": ["inv"], "mode": "fix" if i % 5 else "check"}
        if c.startswith("random"):
            j["cseed"] = seedv * 1000 + (i % 40)
        jobs.append(j)
    # index / look-up correspondence alone on more files and variants
    for i in range(n_index):
        p = sample[(n_inv + i) % len(sample)]
        v = "orig" if i % 2 == 0 else gen_inputs.VARIANTS[i % len(gen_inputs.VARIANTS)]
        jobs.append({"path": p, "variant": v, "vseed": seedv * 1000 + 500 + i, "config": "default", "features": ["index"], "nlookups": 120})
    jobs += props_c18x.extra_jobs(tier, sample, seedv)  # WP3: Lean witnesses + synthetic token lists on the real extractors
    return jobs


def run_jobs(jobs, procs=16):
    with multiprocessing.Pool(procs, initializer=_init) as pool:
        # longest first: fix runs dominate
        order = sorted(jobs, key=lambda j: (0 if "inv" in j["features"] else 1))
        return list(pool.imap_unordered(run_job, order, chunksize=1))


RULE = (
    "a job = one (corpus file, re-layout variant, configuration) run through the real rule_list.fix followed by check_rules "
    "(what `vsg --fix` does); an evaluation = one verdict of the Lean driver: the stored index against its recomputation from the "
    "token list, or one region of interest against the slice of the token list at its recorded start (token identity, modulo "
    "beginning_of_file, iEndIndex = start + length); non-trivial = distinct (extractor or rule base, rule) pairs that delivered at "
    "least one region; in addition process_tokens / look-ups / extractors are compared with the Lean model call by call"
)


def run(prop, tier):
    res = common.Result(prop, tier)
    ok_model, tables, nobl, ndis, thms = common.lean_phase(res, prop)
    if not ok_model:
        return res.finish(max(nobl, 1), 0, "lake build VsgModel driver VsgProofs.Properties.%s" % prop, thms)
    jobs = make_jobs(tier)
    t0 = time.time()
    results = run_jobs(jobs)
    stats = collections.Counter()
    fnstats = collections.Counter()
    pairs = set()
    parse = collections.Counter()
    fail_counts = collections.Counter()
    harness_errors = []
    samples = []
    nbreak = collections.Counter()
    for r in results:
        parse[r["parse"] if not r["parse"].startswith("harness") else "harness"] += 1
        if r["parse"].startswith("harness"):
            harness_errors.append((r["job"], r["parse"]))
            continue
        stats.update(r["stats"])
        fnstats.update(r.get("fnstats", {}))
        pairs.update(tuple(p) for p in r.get("pairs", []))
        for f in r["failures"]:
            fail_counts["%s|%s" % (f["site"], f["kind"])] += 1
            res.fail(f["site"], f["kind"], f["detail"], {"job": f["input"], "rule": f.get("rule"), "features": r["job"].get("features"), "mode": r["job"].get("mode", "fix")})
            if len(samples) < 6:
                samples.append({"job": r["job"].get("path"), "variant": r["job"].get("variant"), "config": r["job"].get("config"), "site": f["site"], "kind": f["kind"], "detail": f["detail"][:160]})
        for b in r["breaks"]:
            nbreak[b["what"]] += 1
            if nbreak[b["what"]] <= 2:
                res.proof_break(b["what"], b["detail"])
    if harness_errors:
        for he in harness_errors[:3]:
            res.notes.append("harness error: %r" % (he,))
        if len(harness_errors) > len(results) // 10:
            raise RuntimeError("too many harness errors: %r" % (harness_errors[0],))
    evaluations = stats["index_verdicts"] + stats["tois_judged"] + stats["index_compared"]
    res.coverage.update(
        {
            "evaluations": evaluations,
            "distinct_nontrivial": len(pairs),
            "rule": RULE,
            "samples": samples or [{"note": "no failing analysis point", "extractors_seen": sorted({p[0] for p in pairs})[:12]}],
            "jobs": len(jobs),
            "parse": dict(parse),
            "index_verdicts_by_lean": stats["index_verdicts"],
            "regions_judged_by_lean": stats["tois_judged"],
            "analyses": stats["analyses"],
            "changed_steps": stats["changed_steps"],
            "position_changing_steps_of_remap_false_rules": stats["changed_steps_remap_false"],
            "value_only_steps_of_remap_false_rules": stats["value_only_steps_remap_false"],
            "index_correspondence_files": stats["index_compared"],
            "lookup_correspondence_calls": stats["lookups"],
            "lookup_correspondence_raising": stats["lookups_raising"],
            "extractor_calls_replayed": stats["extract_replayed"],
            "extractor_calls_replayed_nonempty": stats["extract_replayed_nonempty"],
            "extractor_calls_replayed_raising": stats["extract_replayed_raising"],
            "extractor_calls_by_function": dict(fnstats),
            "distinct_extractors_seen": len({p[0] for p in pairs}),
            "failure_counts": dict(fail_counts),
            "correspondence_breaks": dict(nbreak),
            "harness_errors": len(harness_errors),
            "input_tokens": stats["tokens"],
            "search_wall_s": round(time.time() - t0, 1),
        }
    )
    props_c18x.merge_coverage(res, results)  # WP3
    try:  # wp2_bfull2: whole-rule (B-full) correspondence of the indent / vertical-spacing families (regions of interest compared)
        import props_bfull2

        props_bfull2.extra(res, tier, "C18")
    except ImportError:
        pass
    res.assumptions = [
        "extractors outside the modelled set are covered by the per-run slice certificate (Lean checker on the explored runs), not by a theorem",
        "bisect is modelled on sorted lists (proved for every list process_tokens builds); a token class without docstring unique_id makes extract_unique_id raise AttributeError, which no class of the generated table does",
        "argument domains of the modelled extractors: token counts are natural numbers; get_line_above_line_starting_with_token / get_line_preceding_line without the comment-skipping mode",
    ]
    return res.finish(max(nobl, 1), ndis, "cd lean && lake build VsgProofs.Properties.%s && lake env lean <audit file with #print axioms>" % prop, thms)


def replay(prop, path):
    import gen_tables

    gen_tables.generate()
    d = json.load(open(path))
    if d.get("kind") == "no-failing-input-found":
        print(json.dumps(d, indent=1)[:3000])
        return 0
    inp = d["input"]
    jd = inp["job"]
    job = {k: jd[k] for k in ("path", "variant", "vseed", "config", "cseed") if k in jd}
    if "path" not in job:
        job["text"] = jd["text"]
    job["features"] = inp.get("features") or ["inv"]
    job["mode"] = inp.get("mode", "fix")
    _init()
    r = run_job(job)
    hit = [f for f in r["failures"] if f["site"] == d["site"] and f["kind"] == d["failure"]]
    for f in hit[:5]:
        print("REPRODUCED property=%s site=%s kind=%s %s" % (prop, f["site"], f["kind"], f["detail"]))
    if not hit:
        print("not reproduced; parse=%s failures=%r" % (r["parse"], [(f["site"], f["kind"]) for f in r["failures"]][:5]))
    return 1 if hit else 0


if __name__ == "__main__":
    sys.exit(run("C18", sys.argv[1] if len(sys.argv) > 1 else "quick"))
