"""
BWS — layer B, the whitespace base classes (whitespace_between_tokens.Rule and the 170 rules that inherit its
_fix_violation, n_spaces_before_and_after_tokens, spaces_before_and_after_tokens_when_bounded_by_tokens,
remove_spaces_before_token_rule, whitespace_001/002/005/008, comment_100).

Decided by
 (1) the theorems between the `BEGIN ag_bws` / `END ag_bws` markers of VsgProofs/Properties/C01 C02 C03 C07 C10
     (effects of every `_fix_violation` for ALL actions and ALL token lists; B-full for
     whitespace_between_tokens: idempotence with its exact guard, line locality);
 (2) correspondence of the Lean models with the real functions:
       a. every real violation step of the family harvested from instrumented full-rule-set fix runs,
          replayed through driver mode `bfix`;
       b. the guards of the `_partial` theorems evaluated (driver mode `ws`, request G) on every one of these
          real violations: a real violation outside a guard is checked against the effect on the real tokens;
       c. B-full: `_analyze` of every whitespace_between_tokens rule on every token list of interest of the
          files, real vs Lean (request A), then the real fix on a copy, the real re-analysis, and the Lean
          prediction (`clean` whenever shapeOk ∧ idemGuard, request I);
       d. synthetic token lists and actions (hand-built corner cases + random fuzz, all nine owners) through
          the real `_fix_violation` of a real rule object vs `bfix`, exceptions included.
"""
import copy
import json
import multiprocessing
import os
import random
import re
import subprocess
import sys
import time
import traceback

import common
import gen_inputs
import leanio
import sweep

WSB = "vsg.rules.whitespace_between_tokens.Rule"
NSP = "vsg.rules.n_spaces_before_and_after_tokens.n_spaces_before_and_after_tokens"
BND = "vsg.rules.spaces_before_and_after_tokens_when_bounded_by_tokens.spaces_before_and_after_tokens_when_bounded_by_tokens"
RSB = "vsg.rules.remove_spaces_before_token_rule.remove_spaces_before_token_rule"
W001 = "vsg.rules.whitespace.rule_001.rule_001"
W002 = "vsg.rules.whitespace.rule_002.rule_002"
W005 = "vsg.rules.whitespace.rule_005.rule_005"
W008 = "vsg.rules.whitespace.rule_008.rule_008"
C100 = "vsg.rules.comment.rule_100.rule_100"
FAMILY = [WSB, NSP, BND, RSB, W001, W002, W005, W008, C100]
PROP_FILES = ["C01", "C02", "C03", "C07", "C10"]

# ------------------------------------------------------------------ Lean side


def my_theorems():
    """theorem names inside the ag_bws blocks of the property files"""
    out = {}
    for pf in PROP_FILES:
        p = os.path.join(common.LEAN, "VsgProofs", "Properties", pf + ".lean")
        src = open(p, encoding="utf-8").read()
        m = re.search(r"BEGIN ag_bws(.*?)END ag_bws", src, flags=re.S)
        if not m:
            continue
        body = common.strip_comments(m.group(1))
        ns = re.search(r"^namespace\s+(\S+)", src, flags=re.M).group(1)
        out[pf] = [ns + "." + t for t in re.findall(r"^theorem\s+([^\s:(\[{]+)", body, flags=re.M)]
    return out


def audit(thms_by_file):
    """#print axioms of the family's theorems; returns ({name: axioms}, problems)"""
    os.makedirs(common.OUT, exist_ok=True)
    tmp = os.path.join(common.OUT, "Audit_BWS_%d.lean" % os.getpid())
    with open(tmp, "w") as f:
        for pf in thms_by_file:
            f.write("import VsgProofs.Properties.%s\n" % pf)
        for pf, ts in thms_by_file.items():
            for t in ts:
                f.write("#print axioms %s\n" % t)
    p = subprocess.run(["lake", "env", "lean", tmp], cwd=common.LEAN, stdout=subprocess.PIPE, stderr=subprocess.STDOUT, text=True)
    os.remove(tmp)
    axioms = {}
    for m in re.finditer(r"'([^']+)' depends on axioms: \[([^\]]*)\]", p.stdout, flags=re.S):
        axioms[m.group(1)] = [a.strip() for a in m.group(2).replace("\n", " ").split(",") if a.strip()]
    for m in re.finditer(r"'([^']+)' does not depend on any axioms", p.stdout):
        axioms[m.group(1)] = []
    problems = []
    for ts in thms_by_file.values():
        for t in ts:
            if t not in axioms:
                problems.append("no axiom report for " + t)
            elif [a for a in axioms[t] if a not in common.ALLOWED_AXIOMS]:
                problems.append("%s depends on %s" % (t, axioms[t]))
    if p.returncode != 0:
        problems.append("audit file failed: " + p.stdout[-400:])
    return axioms, problems


def ask_driver(mode, lines):
    """all requests, then all replies (never interleave: pipe deadlock)"""
    if not lines:
        return []
    p = subprocess.run([leanio.DRIVER, mode], input="".join(l + "\n" for l in lines), stdout=subprocess.PIPE, text=True, encoding="utf-8")
    out = p.stdout.split("\n")
    return out[: len(lines)] + ["error no reply"] * max(0, len(lines) - len(out))


# ------------------------------------------------------------------ real side helpers (inside workers)


def wire_toks(lTokens, ci):
    return [(0, ci.of(t), t.get_value()) for t in lTokens]


def plain(ts, ncls):
    return [(t[1] if t[1] >= 0 else ncls, t[2]) for t in ts]


def non_layout(ts, kind):
    return [t for t in ts if kind.get(t[0]) not in ("ws", "cr", "blank")]


def norm_w(ts, kind):
    out = []
    for c, v in ts:
        if kind.get(c) in ("comment", "dcBegin", "dcText", "dcEnd", "pragma", "preproc"):
            v = v.replace(" ", "").replace("\t", "")
        out.append((c, v))
    return out


def _winit():
    sweep._init()


def harvest_job(job):
    """one job: (a) real violation steps of the family, (b) B-full analysis records"""
    import vsgrun
    from vsg import exceptions as vexc
    from vsg import violation as vviolation
    from vsg.vhdlFile.extract import tokens as vtokens

    W = sweep._W
    ci = W["ci"]
    out = {"recs": [], "an": [], "parse": "ok", "overlap": 0}
    try:
        cla, oc, style, dicts = sweep.job_config(job)
        text = sweep.job_text(job)
        lines = vsgrun.text_to_lines(text)
        o = vsgrun.parse(lines, cla, oc)
    except vexc.ClassifyError:
        out["parse"] = "rejected"
        return out
    except Exception:  # noqa: BLE001
        out["parse"] = "crash"
        return out
    desc = sweep.describe(job, style, dicts)
    # ---- (c) B-full on the freshly parsed file
    rl = vsgrun.new_rule_list(o, oc)
    for rule in rl.rules:
        if W["fullowner"].get(rule.unique_id) != WSB or rule.disable:
            continue
        if type(rule)._analyze.__qualname__ != "Rule._analyze" or type(rule)._analyze.__module__ != "vsg.rules.whitespace_between_tokens":
            continue
        try:
            lToi = rule._get_tokens_of_interest(o)
        except Exception:  # noqa: BLE001
            continue
        nos = rule.number_of_spaces
        for oToi in lToi[: job.get("toi_cap", 25)]:
            rec = {"rule": rule.unique_id, "nos": nos, "toks": wire_toks(oToi.get_tokens(), ci), "desc": desc}
            rec["a1"] = real_analyze(rule, oToi)
            if rec["a1"][0] == "spaces":
                toks2 = copy.deepcopy(oToi.get_tokens())
                oToi2 = vtokens.New(oToi.iStartIndex, oToi.iLine, toks2)
                v2 = vviolation.New(oToi.iLine, oToi2, "")
                v2.set_action({"spaces": rec["a1"][1]})
                try:
                    rule._fix_violation(v2)
                    new = v2.get_tokens()
                    rec["fix"] = wire_toks(new, ci)
                    rec["a2"] = real_analyze(rule, vtokens.New(oToi.iStartIndex, oToi.iLine, new))
                except Exception as e:  # noqa: BLE001
                    rec["fix"] = ("err", type(e).__name__)
            out["an"].append(rec)
    # ---- (a) harvest of a full instrumented fix run
    try:
        o = vsgrun.parse(lines, cla, oc)
    except Exception:  # noqa: BLE001
        return out
    rl = vsgrun.new_rule_list(o, oc)
    steps, exc, ser = vsgrun.instrumented_fix(o, rl, ci, harvest=True)
    pcache = {}
    for st in steps:
        if st.kind != "fix" or not st.edits or st.before is None or st.exc is not None:
            continue
        owner = W["fullowner"].get(st.rule)
        if owner not in FAMILY:
            continue
        if st.rule not in pcache:
            rule = next((r for r in rl.rules if r.unique_id == st.rule), None)
            pcache[st.rule] = vsgrun.rule_params(rule, ci) if rule is not None else {}
        spans = sorted((e["start"], e["stop"]) for e in st.edits if isinstance(e["start"], int) and isinstance(e["stop"], int))
        if any(a[1] > b[0] for a, b in zip(spans, spans[1:])):
            out["overlap"] += len(st.edits)
            continue
        bw = vsgrun.wire(st.before, ci, ser)
        for e in st.edits:
            if not isinstance(e["start"], int) or not isinstance(e["stop"], int):
                continue
            old = bw[e["start"] : e["stop"]]
            bof = [t for t in e["new"] if ci.kind.get(t[1]) == "bof"]
            if bof and not any(ci.kind.get(t[1]) == "bof" for t in old):
                old = bof + old
            out["recs"].append({"owner": owner, "rule": st.rule, "params": pcache[st.rule], "action": e.get("action_data"), "old": [tuple(t[:3]) for t in old], "new": [tuple(t[:3]) for t in e["new"]], "line": e.get("line"), "desc": desc})
    return out


def real_analyze(rule, oToi):
    """what whitespace_between_tokens._analyze records for ONE region (code tags bypassed)"""
    got = []
    rule.__dict__["add_violation"] = got.append
    try:
        rule._analyze([oToi])
    except Exception as e:  # noqa: BLE001
        return ("err", type(e).__name__)
    finally:
        rule.__dict__.pop("add_violation", None)
        rule.violations = []
    if not got:
        return ("clean",)
    a = got[0].get_action()
    return ("spaces", a.get("spaces"))


# ------------------------------------------------------------------ synthetic cases


def mk_tok(spec):
    """spec = (kind, value) -> real token object"""
    from vsg import parser as vparser
    from vsg.token import pragma as vpragma

    k, v = spec
    if k == "ws":
        return vparser.whitespace(v)
    if k == "cr":
        return vparser.carriage_return()
    if k == "blank":
        return vparser.blank_line()
    if k == "comment":
        return vparser.comment(v)
    if k == "pragma":
        return vpragma.single(v)
    if k == "kw":
        return vparser.keyword(v)
    if k == "bof":
        return vparser.beginning_of_file()
    return vparser.todo(v)


def real_rule(owner, params):
    """a real rule object whose _fix_violation is `owner`'s, with the given attributes"""
    from vsg.rules.comment import rule_100
    from vsg.rules.port import rule_007
    from vsg.rules.signal import rule_006
    from vsg.rules.whitespace import rule_001, rule_002, rule_003, rule_005, rule_008, rule_010

    cls = {WSB: rule_006, NSP: rule_010, BND: rule_007, RSB: rule_003, W001: rule_001, W002: rule_002, W005: rule_005, W008: rule_008, C100: rule_100}[owner]
    r = cls()
    for k, v in params.items():
        setattr(r, k, v)
    return r


def real_fix(owner, params, action, specs):
    from vsg import violation as vviolation
    from vsg.vhdlFile.extract import tokens as vtokens

    r = real_rule(owner, params)
    toks = [mk_tok(s) for s in specs]
    oToi = vtokens.New(0, 1, toks)
    v = vviolation.New(1, oToi, "")
    if action != "unset":
        v.set_action(action)
    try:
        r._fix_violation(v)
    except Exception as e:  # noqa: BLE001
        return ("err", type(e).__name__), toks
    return ("ok", v.get_tokens()), toks


HAND_CASES = [
    # (name, owner, params, action, token specs)
    ("pair-no-whitespace", WSB, {"number_of_spaces": 1}, {"spaces": 1}, [("kw", "signal"), ("code", ":")]),
    ("pair-no-whitespace-3", WSB, {"number_of_spaces": ">=1"}, {"spaces": 1}, [("kw", "a"), ("code", ":"), ("code", "b")]),
    ("whitespace-length-0", WSB, {"number_of_spaces": 1}, {"spaces": 1}, [("kw", "a"), ("ws", ""), ("code", ":")]),
    ("insert-0-blanks", WSB, {"number_of_spaces": ">=0"}, {"spaces": 0}, [("kw", "a"), ("code", ":")]),
    ("tab-whitespace", WSB, {"number_of_spaces": 1}, {"spaces": 1}, [("kw", "a"), ("ws", "\t\t"), ("code", ":")]),
    ("nos0-remove", WSB, {"number_of_spaces": 0}, {"spaces": 0}, [("kw", "a"), ("ws", "  "), ("code", "(")]),
    ("nos0-two-tokens", WSB, {"number_of_spaces": 0}, {"spaces": 0}, [("kw", "a"), ("code", "(")]),
    ("nos0-code-middle", WSB, {"number_of_spaces": 0}, {"spaces": 0}, [("code", "a"), ("code", "b"), ("code", "c")]),
    ("nos0-four-tokens", WSB, {"number_of_spaces": 0}, {"spaces": 0}, [("code", "a"), ("ws", " "), ("code", "c"), ("code", "d")]),
    ("nos-false", WSB, {"number_of_spaces": False}, {"spaces": False}, [("kw", "a"), ("ws", "  "), ("code", "(")]),
    ("nos-true", WSB, {"number_of_spaces": True}, {"spaces": True}, [("kw", "a"), ("code", "(")]),
    ("nos-string-0", WSB, {"number_of_spaces": "0"}, {"spaces": 2}, [("kw", "a"), ("ws", ""), ("code", "(")]),
    ("region-start-cr", WSB, {"number_of_spaces": 1}, {"spaces": 1}, [("cr", ""), ("code", "a")]),
    ("cr-between-pair", WSB, {"number_of_spaces": 1}, {"spaces": 1}, [("kw", "a"), ("cr", ""), ("code", "b")]),
    ("comment-between-pair", WSB, {"number_of_spaces": 1}, {"spaces": 2}, [("kw", "a"), ("comment", "-- c"), ("cr", ""), ("code", "b")]),
    ("comment-then-cr", WSB, {"number_of_spaces": 1}, {"spaces": 1}, [("comment", "-- c"), ("cr", "")]),
    ("empty-region", WSB, {"number_of_spaces": 1}, {"spaces": 1}, []),
    ("one-token", WSB, {"number_of_spaces": 1}, {"spaces": 1}, [("kw", "a")]),
    ("negative-spaces", WSB, {"number_of_spaces": -1}, {"spaces": -1}, [("kw", "a"), ("ws", "   "), ("code", "b")]),
    ("spaces-none", WSB, {"number_of_spaces": "abc"}, {"spaces": None}, [("kw", "a"), ("code", "b")]),
    ("action-unset", WSB, {"number_of_spaces": 1}, "unset", [("kw", "a"), ("code", "b")]),
    ("action-missing-key", WSB, {"number_of_spaces": 1}, {}, [("kw", "a"), ("ws", " "), ("code", "b")]),
    ("spaces-str", WSB, {"number_of_spaces": 1}, {"spaces": "2"}, [("kw", "a"), ("ws", " "), ("code", "b")]),
    ("nsp-adjust-both", NSP, {"iSpaces": 1}, {"left": {"action": "adjust"}, "right": {"action": "adjust"}}, [("ws", "   "), ("code", "&"), ("ws", "  ")]),
    ("nsp-insert-both", NSP, {"iSpaces": 1}, {"left": {"action": "insert"}, "right": {"action": "insert"}}, [("code", "a"), ("code", "&"), ("code", "b")]),
    ("nsp-right-then-left", NSP, {"iSpaces": 1}, {"right": {"action": "insert"}, "left": {"action": "insert"}}, [("code", "a"), ("code", "&"), ("code", "b")]),
    ("nsp-adjust-code", NSP, {"iSpaces": 1}, {"left": {"action": "adjust"}}, [("code", "a"), ("code", "&"), ("code", "b")]),
    ("nsp-one-token", NSP, {"iSpaces": 1}, {"right": {"action": "insert"}}, [("code", "a")]),
    ("nsp-empty", NSP, {"iSpaces": 1}, {"left": {"action": "insert"}}, []),
    ("nsp-ispaces-2", NSP, {"iSpaces": 2}, {"left": {"action": "adjust"}, "right": {"action": "insert"}}, [("ws", " "), ("code", "&"), ("code", "b")]),
    ("nsp-left-not-dict", NSP, {"iSpaces": 1}, {"left": "adjust"}, [("ws", " "), ("code", "&"), ("code", "b")]),
    ("nsp-no-action-key", NSP, {"iSpaces": 1}, {"left": {"side": "before"}}, [("ws", " "), ("code", "&"), ("code", "b")]),
    ("nsp-unset", NSP, {"iSpaces": 1}, "unset", [("ws", " "), ("code", "&"), ("code", "b")]),
    ("bnd-adjust-both", BND, {"spaces_before": 1, "spaces_after": 4}, {"left": {"action": "adjust", "side": "before"}, "right": {"action": "adjust", "side": "after"}}, [("ws", "  "), ("kw", "in"), ("ws", " ")]),
    ("bnd-insert-both", BND, {"spaces_before": 1, "spaces_after": 4}, {"left": {"action": "insert", "side": "before"}, "right": {"action": "insert", "side": "after"}}, [("code", ":"), ("kw", "in"), ("code", "t")]),
    ("bnd-insert-right", BND, {"spaces_before": 1, "spaces_after": 4}, {"right": {"action": "insert", "side": "after"}}, [("ws", " "), ("kw", "in"), ("code", "t")]),
    ("bnd-remove-left", BND, {"spaces_before": 0, "spaces_after": 1}, {"left": {"action": "remove", "side": "before"}}, [("ws", " "), ("kw", "in"), ("ws", " ")]),
    ("bnd-remove-code", BND, {"spaces_before": 0, "spaces_after": 1}, {"left": {"action": "remove", "side": "before"}}, [("code", ":"), ("kw", "in"), ("ws", " ")]),
    ("bnd-before-2", BND, {"spaces_before": 2, "spaces_after": 1}, {"left": {"action": "insert", "side": "before"}}, [("code", ":"), ("kw", "in"), ("ws", " ")]),
    ("bnd-before-end", BND, {"spaces_before": "end", "spaces_after": 1}, {"left": {"action": "insert", "side": "before"}}, [("code", ":"), ("kw", "in"), ("ws", " ")]),
    ("bnd-before-str", BND, {"spaces_before": "x", "spaces_after": 1}, {"left": {"action": "insert", "side": "before"}}, [("code", ":"), ("kw", "in"), ("ws", " ")]),
    ("bnd-after-none", BND, {"spaces_before": 1, "spaces_after": None}, {"right": {"action": "insert", "side": "after"}}, [("code", ":"), ("kw", "in"), ("code", "t")]),
    ("bnd-remove-last", BND, {"spaces_before": 0, "spaces_after": 1}, {"left": {"action": "remove"}, "right": {"action": "adjust"}}, [("ws", " ")]),
    ("rsb-normal", RSB, {}, "unset", [("ws", "  "), ("code", ";")]),
    ("rsb-code", RSB, {}, "unset", [("code", "a"), ("code", ";")]),
    ("rsb-empty", RSB, {}, "unset", []),
    ("w001-remove", W001, {}, {"action": "remove"}, [("code", ";"), ("ws", "   "), ("cr", "")]),
    ("w001-blank", W001, {}, {"action": "insert_blank_line"}, [("cr", ""), ("ws", "   "), ("cr", "")]),
    ("w001-bof", W001, {}, {"action": "remove"}, [("bof", ""), ("ws", " "), ("cr", "")]),
    ("w001-one-token", W001, {}, {"action": "remove"}, [("code", "a")]),
    ("w001-empty", W001, {}, {"action": "remove"}, []),
    ("w001-long", W001, {}, {"action": "remove"}, [("code", "a"), ("code", "b"), ("ws", " "), ("cr", "")]),
    ("w001-comment-first", W001, {}, {"action": "insert_blank_line"}, [("comment", "-- c"), ("cr", "")]),
    ("w002-tab", W002, {}, {"action": "remove_tab"}, [("ws", "\t \t")]),
    ("w002-comment", W002, {}, {"action": "remove_tab_from_comment"}, [("comment", "--\tWrite\tEnable")]),
    ("w002-comment-on-code", W002, {}, {"action": "remove_tab_from_comment"}, [("code", "a\tb")]),
    ("w002-tab-on-code", W002, {}, {"action": "remove_tab"}, [("code", "a\tb")]),
    ("w002-pragma", W002, {}, {"action": "remove_tab_from_comment"}, [("pragma", "--\tsynthesis off")]),
    ("w002-empty", W002, {}, {"action": "remove_tab"}, []),
    ("w005-normal", W005, {}, "unset", [("code", "v"), ("code", "("), ("ws", "  "), ("code", "g")]),
    ("w005-code", W005, {}, "unset", [("code", "("), ("code", "x"), ("code", "g")]),
    ("w005-one", W005, {}, "unset", [("code", "(")]),
    ("w008-normal", W008, {}, "unset", [("code", "std_logic_vector"), ("ws", " ")]),
    ("w008-cr", W008, {}, "unset", [("code", "a"), ("cr", "")]),
    ("w008-empty", W008, {}, "unset", []),
    ("c100-index2", C100, {}, {"index": 2, "violation": True}, [("comment", "--Comment")]),
    ("c100-pattern", C100, {}, {"index": 3}, [("comment", "--!Comment")]),
    ("c100-negative", C100, {}, {"index": -3}, [("comment", "--Comment")]),
    ("c100-beyond", C100, {}, {"index": 99}, [("comment", "--C")]),
    ("c100-none", C100, {}, {"index": None}, [("comment", "--C")]),
    ("c100-str", C100, {}, {"index": "2"}, [("comment", "--C")]),
    ("c100-on-code", C100, {}, {"index": 2}, [("code", "abcd")]),
    ("c100-empty", C100, {}, {"index": 2}, []),
]


WITNESS_CASES = {
    "nos0-code-middle": "C03.bfix_wsBetween_zero_not_layoutOnly",
    "rsb-code": "C03.bfix_removeBefore_not_layoutOnly",
    "w001-one-token": "C03.bfix_ws001_duplicates",
    "w008-cr": "C07.bfix_ws008_cr_witness",
    "c100-on-code": "C01.bfix_comment100_code_witness",
    "comment-then-cr": "C02.bfix_wsBetween_commentEndsLine_witness",
    "region-start-cr": "C07 example (changed line = reported + 1)",
    "bnd-insert-both": "C03 example (misplaced blank of spaces_before_and_after_tokens_when_bounded_by_tokens)",
}


def fuzz_cases(rng, n):
    kinds = [("ws", " "), ("ws", "   "), ("ws", "\t"), ("ws", ""), ("cr", ""), ("blank", ""), ("comment", "-- c"), ("comment", "--\tx"), ("code", "a"), ("code", ";"), ("kw", "in"), ("pragma", "-- synthesis off")]
    ints = [0, 1, 2, 3, -1, -2, 7, True, False]
    out = []
    for i in range(n):
        owner = rng.choice(FAMILY)
        specs = [rng.choice(kinds) for _ in range(rng.choice([0, 1, 2, 2, 3, 3, 3, 4, 5]))]
        weird = rng.random() < 0.15
        if owner == WSB:
            params = {"number_of_spaces": rng.choice([0, 0, 1, 1, 2, ">=1", ">1", "<=1", "<3", "1+", -1, True, False, "0", "x"])}
            action = {"spaces": rng.choice(ints + ([None, "1"] if weird else []))}
            if weird and rng.random() < 0.3:
                action = rng.choice(["unset", {}, {"space": 1}])
        elif owner == NSP:
            params = {"iSpaces": rng.choice([1, 1, 2, 0] + ([None] if weird else []))}
            sides = rng.choice([["left"], ["right"], ["left", "right"], ["right", "left"], []])
            action = {s: {"action": rng.choice(["adjust", "insert", "insert", "other"])} for s in sides}
            if weird:
                action = rng.choice(["unset", {"left": "adjust"}, {"right": {}}, {"left": None}, {"other": 1}])
        elif owner == BND:
            params = {"spaces_before": rng.choice([0, 1, 1, 2, 3] + (["end", "x", None] if weird else [])), "spaces_after": rng.choice([0, 1, 4, 4, 2] + ([None, "1"] if weird else []))}
            sides = rng.choice([["left"], ["right"], ["left", "right"], ["right", "left"], []])
            action = {s: {"action": rng.choice(["adjust", "insert", "remove"]), "side": "x"} for s in sides}
            if weird:
                action = rng.choice(["unset", {"left": "adjust"}, {"right": {}}, {"left": None}])
        elif owner == W001:
            params = {}
            action = {"action": rng.choice(["remove", "insert_blank_line", "other"])} if not weird else rng.choice(["unset", {}, {"action": None}])
        elif owner == W002:
            params = {}
            action = {"action": rng.choice(["remove_tab", "remove_tab_from_comment", "other"])} if not weird else rng.choice(["unset", {}])
        elif owner == C100:
            params = {}
            action = {"index": rng.choice(ints + [5, 40] + ([None, "2"] if weird else []))} if not (weird and rng.random() < 0.3) else rng.choice(["unset", {}])
        else:
            params = {}
            action = rng.choice(["unset", {}])
        out.append(("fuzz%d" % i, owner, params, action, specs))
    return out


def run_synthetic(cases, ci, ncls):
    """returns (n, mismatches, details per case)"""
    import bfix

    reqs = []
    reals = []
    for name, owner, params, action, specs in cases:
        (tag, res), toks = real_fix(owner, copy.deepcopy(params), copy.deepcopy(action), specs)  # the real code may mutate them
        old = wire_toks_specs(specs, ci)
        reals.append((tag, res))
        act = None if action == "unset" else action
        reqs.append("%s\t%s\t%s\t%s" % (owner, bfix.enc_kv(params), bfix.enc_kv(act), bfix.enc_plain_toks(old, ncls)))
    replies = ask_driver("bfix", reqs)
    mism = []
    for (name, owner, params, action, specs), (tag, res), line in zip(cases, reals, replies):
        if line.startswith("err unmodelled"):
            continue
        if tag == "ok":
            want = [(ci.of(t) if ci.of(t) >= 0 else ncls, t.get_value()) for t in res]
            if not line.startswith("ok") or bfix.dec_plain_toks(line[3:]) != want:
                mism.append({"case": name, "owner": owner, "params": params, "action": action, "specs": specs, "real": want, "lean": line[:300]})
        else:
            if line != "err " + res:
                mism.append({"case": name, "owner": owner, "params": params, "action": action, "specs": specs, "real": "raises " + res, "lean": line[:300]})
    return len(cases), mism


def wire_toks_specs(specs, ci):
    return [(0, ci.of(mk_tok(s)), mk_tok(s).get_value()) for s in specs]


# ------------------------------------------------------------------ encoding of number_of_spaces


def enc_nos(v):
    import bfix

    return bfix.enc_val(v)


def dec_finding(line):
    """A clean | A spaces i3 | A spaces n | A err X  ->  comparable tuple"""
    parts = line.split(" ")
    if parts[:2] == ["A", "clean"]:
        return ("clean",)
    if parts[:2] == ["A", "spaces"]:
        v = parts[2]
        return ("spaces", None if v == "n" else int(v[1:]))
    if parts[:2] == ["A", "err"]:
        return ("err", parts[2])
    return ("?", line)


def norm_finding(f):
    if f[0] == "spaces" and isinstance(f[1], bool):
        return ("spaces", int(f[1]))
    return tuple(f)


# ------------------------------------------------------------------ run


def evaluate(res, recs, ans, ncls, kind):
    """(a) replay, (b) guards, (c) B-full on harvested records; failures go to `res`"""
    import bfix

    by_owner = {}
    nm, unm, mism2 = bfix.replay_records(recs, ncls)
    for r in recs:
        by_owner[sweep.short_owner(r["owner"])] = by_owner.get(sweep.short_owner(r["owner"]), 0) + 1
    for m in mism2[:5]:
        res.proof_break("correspondence bfix vs real _fix_violation (harvest) at %s" % sweep.short_owner(m["owner"]), m)
    # guards on every real violation
    greqs = ["G\t%s\t%s\t%s\t%s" % (r["owner"], bfix.enc_kv(r["params"]), bfix.enc_kv(r["action"]), bfix.enc_plain_toks(r["old"], ncls)) for r in recs]
    greps = ask_driver("ws", greqs)
    guard_false = {}
    cr_first = 0
    for r, g in zip(recs, greps):
        parts = g.split(" ")
        old = plain(r["old"], ncls)
        new = plain(r["new"], ncls)
        if parts[0] != "G" or len(parts) != 3:
            res.proof_break("driver ws/G", g[:200])
            continue
        site = sweep.short_owner(r["owner"])
        if parts[1] != "1" or parts[2] != "1":
            guard_false[site] = guard_false.get(site, 0) + 1
            # outside the guard the theorems say nothing: look at the real effect
            if norm_w(non_layout(old, kind), kind) != norm_w(non_layout(new, kind), kind):
                res.fail(site, "notLayoutOnly", "%s: real violation outside the guard changes non-layout tokens: %r -> %r (action %r)" % (r["rule"], old[:8], new[:8], r["action"]), r["desc"])
            if sum(1 for t in old if kind.get(t[0]) == "cr") != sum(1 for t in new if kind.get(t[0]) == "cr"):
                res.fail(site, "lineCountChanged", "%s: %r -> %r" % (r["rule"], old[:8], new[:8]), r["desc"])
        if r["owner"] == WSB and old and kind.get(old[0][0]) == "cr":
            cr_first += 1
    # ---- (c) B-full
    areqs = ["A\t%s\t%s" % (enc_nos(a["nos"]), bfix.enc_plain_toks(a["toks"], ncls)) for a in ans]
    areps = ask_driver("ws", areqs)
    ireps = ask_driver("ws", ["I\t%s\t%s" % (enc_nos(a["nos"]), bfix.enc_plain_toks(a["toks"], ncls)) for a in ans])
    second = []
    for a in ans:
        if isinstance(a.get("fix"), list):
            second.append("A\t%s\t%s" % (enc_nos(a["nos"]), bfix.enc_plain_toks(a["fix"], ncls)))
    sreps = iter(ask_driver("ws", second))
    n_an = n_viol = n_guarded = n_osc = 0
    osc_forms = {}
    for a, rep, irep in zip(ans, areps, ireps):
        n_an += 1
        lean1 = dec_finding(rep)
        real1 = norm_finding(a["a1"])
        if lean1[0] == "err" and lean1[1].startswith("unmodelled"):
            continue
        if lean1 != real1:
            res.proof_break("correspondence analyzeToi vs real _analyze at whitespace_between_tokens.Rule", {"rule": a["rule"], "nos": a["nos"], "toks": plain(a["toks"], ncls), "real": real1, "lean": rep})
            continue
        if real1[0] != "spaces":
            continue
        n_viol += 1
        if not isinstance(a.get("fix"), list):
            continue
        lean2 = dec_finding(next(sreps))
        real2 = norm_finding(a["a2"])
        if lean2 != real2:
            res.proof_break("correspondence analyzeToi vs real _analyze (after fix) at whitespace_between_tokens.Rule", {"rule": a["rule"], "nos": a["nos"], "toks": plain(a["fix"], ncls), "real": real2, "lean": lean2})
            continue
        ip = irep.split(" ")
        guarded = ip[:1] == ["I"] and ip[1:] == ["1", "1"]
        if guarded:
            n_guarded += 1
            if real2 != ("clean",):
                # the theorem bfix_wsBetween_idem_partial says clean: the model and the code agree, so this cannot happen
                res.proof_break("bfix_wsBetween_idem_partial contradicted on real tokens", {"rule": a["rule"], "nos": a["nos"], "toks": plain(a["toks"], ncls), "after": real2})
        elif real2 != ("clean",):
            n_osc += 1
            osc_forms[str(a["nos"])] = osc_forms.get(str(a["nos"]), 0) + 1
    return {"by_owner": by_owner, "nm": nm, "mism2": mism2, "guard_false": guard_false, "cr_first": cr_first, "n_an": n_an, "n_viol": n_viol, "n_guarded": n_guarded, "n_osc": n_osc, "osc_forms": osc_forms}


def jobs_for(tier):
    files = gen_inputs.corpus_files()
    common.rng("bws-files").shuffle(files)
    n = 260 if tier == "quick" else 1400
    jobs = []
    for i, p in enumerate(files[:n]):
        jobs.append({"path": p, "variant": "orig", "vseed": i, "config": "default", "cseed": i})
        jobs.append({"path": p, "variant": "messy", "vseed": i, "config": "random", "cseed": i + 1000 * common.seed()})
    # tabs in the middle of lines and inside comments (whitespace_002 has nothing to do on the corpus as it is)
    for i, p in enumerate(files[: (40 if tier == "quick" else 300)]):
        text = gen_inputs.read_text(p).replace(" : ", "\t:\t").replace("-- ", "--\t").replace(" <= ", " \t<= ")
        jobs.append({"text": text, "tabbed_from": p, "variant": "orig", "vseed": i, "config": "default", "cseed": i})
    return jobs


def run(prop, tier):
    res = common.Result(prop, tier)
    t0 = time.time()
    import gen_tables

    tables, _ = gen_tables.generate()
    ok_model, out_model, _ = common.lake_build(["VsgModel", "driver"])
    if not ok_model:
        for d in common.failed_decls(out_model):
            res.proof_break("model build: %s:%s %s" % (d["file"], d["line"], d["decl"]), d["message"])
        return res.finish(1, 0, "lake build VsgModel driver", [])
    ok_proofs, out_proofs, _ = common.lake_build(["VsgProofs.Properties." + pf for pf in PROP_FILES])
    thms_by_file = my_theorems()
    all_thms = [t for ts in thms_by_file.values() for t in ts]
    discharged = 0
    axioms = {}
    if not ok_proofs:
        for d in common.failed_decls(out_proofs):
            res.proof_break("theorem %s (%s:%s)" % (d["decl"], d["file"], d["line"]), d["message"])
    else:
        axioms, problems = audit(thms_by_file)
        for pr in problems:
            res.proof_break("axiom audit", pr)
        discharged = sum(1 for t in all_thms if t in axioms and all(a in common.ALLOWED_AXIOMS for a in axioms[t]))
    for h in common.forbidden_tokens():
        res.proof_break("forbidden token", h)
        discharged = 0
    thms = [{"name": t, "axioms": axioms.get(t)} for t in all_thms]

    import vsgrun

    ci = vsgrun.ClassIndex(tables)
    ncls = len(tables["classes"])
    kind = dict(ci.kind)
    kind[ncls] = "code"

    # ---- (d) synthetic
    rng = common.rng("bws-fuzz")
    cases = HAND_CASES + fuzz_cases(rng, 1500 if tier == "quick" else 12000)
    nsyn, mism = run_synthetic(cases, ci, ncls)
    for m in mism[:5]:
        res.proof_break("correspondence bfix vs real _fix_violation (synthetic) at %s" % sweep.short_owner(m["owner"]), m)

    # the counterexamples of the `_partial` theorems, on the REAL classes (hand-built token lists)
    witnesses = {}
    for name, owner, params, action, specs in HAND_CASES:
        if name in WITNESS_CASES:
            (tag, r), _ = real_fix(owner, copy.deepcopy(params), copy.deepcopy(action), specs)
            witnesses[name] = {"lean_theorem": WITNESS_CASES[name], "owner": sweep.short_owner(owner), "params": params, "action": action, "old": [v for _, v in specs] if all(k != "cr" for k, _ in specs) else [("\n" if k == "cr" else v) for k, v in specs], "real_result": [t.get_value() for t in r] if tag == "ok" else "raises " + r}

    # ---- (a)(b)(c) harvest
    jobs = jobs_for(tier)
    with multiprocessing.Pool(min(16, os.cpu_count() or 4), initializer=_winit) as pool:
        results = pool.map(harvest_job, jobs, chunksize=4)
    recs = [r for o in results for r in o["recs"]]
    ans = [r for o in results for r in o["an"]]
    st = evaluate(res, recs, ans, ncls, kind)
    by_owner, nm, mism2, guard_false, cr_first = st["by_owner"], st["nm"], st["mism2"], st["guard_false"], st["cr_first"]
    n_an, n_viol, n_guarded, n_osc, osc_forms = st["n_an"], st["n_viol"], st["n_guarded"], st["n_osc"], st["osc_forms"]
    res.coverage.update(
        {
            "evaluations": len(recs) + nsyn + n_an,
            "distinct_nontrivial": len(by_owner),
            "rule": "evaluations = real violation steps of the family replayed through bfix + synthetic _fix_violation calls + regions analysed (B-full); distinct_nontrivial = owners of the family with at least one real violation in the harvest",
            "samples": [{"owner": k, "real_violations_replayed": v} for k, v in sorted(by_owner.items())],
            "jobs": len(jobs),
            "parse": {k: sum(1 for o in results if o["parse"] == k) for k in ("ok", "rejected", "crash")},
            "bfix_replayed": nm,
            "bfix_mismatches": len(mism2),
            "skipped_overlapping": sum(o["overlap"] for o in results),
            "synthetic_cases": nsyn,
            "synthetic_mismatches": len(mism),
            "witnesses_on_real_code": witnesses,
            "real_violations_outside_guard": guard_false,
            "wsb_regions_starting_with_line_break": cr_first,
            "bfull_regions_analysed": n_an,
            "bfull_violations_fixed_and_reanalysed": n_viol,
            "bfull_inside_idem_guard": n_guarded,
            "bfull_outside_guard_still_reported": n_osc,
            "bfull_oscillating_number_of_spaces": osc_forms,
            "wall_s": round(time.time() - t0, 1),
        }
    )
    res.assumptions = [
        "number_of_spaces is an int, a bool or an ASCII str (anything else: the model answers `unmodelled`)",
        "isinstance(x, parser.whitespace) ⇔ kind ws: the generated class table has exactly one class of kind ws / cr / blank / comment",
        "a violation's tokens are the slice [iStartIndex, iEndIndex) of the file plus beginning_of_file pseudo tokens (C18)",
        "B-full idempotence speaks about the re-analysis of the repaired region (or any region with the same whitespace view); that the extractor delivers that region again is not modelled",
    ]
    return res.finish(max(len(all_thms), 1), discharged, "cd lean && lake build " + " ".join("VsgProofs.Properties." + pf for pf in PROP_FILES), thms)


def replay(prop, path):
    d = json.load(open(path))
    print(json.dumps(d, indent=1)[:4000])
    if d.get("kind") == "no-failing-input-found":
        return 0
    import replay as rp

    found, exc = rp.show(d["input"], None)
    return 1 if found else 0
