"""
C13 C20 C14 — the engine properties.  Decided by
 (1) the Lean theorems of VsgProofs/Properties/<id>.lean about the model of check_rules /
     report_violations / extract_* / fix (rule semantics a parameter),
 (2) correspondence: random stub rule sets through the REAL engine and through `driver engine`
     (engine_stub.py), every observable compared,
 (3) search on the REAL code: the property itself evaluated on the stub runs and on real rules end to
     end (corpus files, in-process apply_rules / __main__.main and the CLI).
"""
import collections
import contextlib
import io
import json
import multiprocessing
import os
import re
import shutil
import subprocess
import sys
import tempfile
import time
import traceback

sys.path.insert(0, os.path.dirname(os.path.abspath(__file__)))

import common  # noqa: E402
import gen_inputs  # noqa: E402

RULE = {
    "C13": "an evaluation = one stub scenario (random rule set with phases in -1..8, sub-phases -1..6, disabled/fixable/severity/prerequisite attributes, skip set, all_phases flag, fix_phase) run through the real engine and the Lean model, or one real-rule job (corpus file x configuration: gated vs all-phases report, or one --fix_phase N run).  distinct_nontrivial = distinct (all_phases, skip set, first failing phase) combinations reached in runs that reported at least one violation",
    "C20": "an evaluation = one stub scenario with a fix run (fix_only dictionary shapes: None, missing keys, empty, every rule 'all', random (rule, lines) selections, junk items, unknown rules) through the real engine and the Lean model, or one real-rule --fix_only run on a corpus file.  distinct_nontrivial = distinct (fix_only shape, something fixed?, something filtered out?) combinations",
    "C14": "an evaluation = one stub scenario whose reports (vsg / syntastic / summary / JUnit / JSON / quality report / exit flag) are compared format against format and with the Lean model, or one real __main__.main run with --json --junit --quality_report.  distinct_nontrivial = distinct (severity set-up, output format, exit status, has warnings, has errors) combinations",
}

_W = {}


def _init():
    import vsgrun
    import leanio

    tables = json.load(open(os.path.join(common.CACHE, "tables.json")))
    _W["tables"] = tables
    _W["ci"] = vsgrun.ClassIndex(tables)
    _W["ncls"] = len(tables["classes"])
    _W["cla"], _W["oConfig"] = vsgrun.make_config()
    _W["rule_by_id"] = {r["id"]: r for r in tables["rules"]}
    try:
        _W["drv"] = leanio.Driver("engine")
    except Exception:  # noqa: BLE001
        _W["drv"] = None


# ====================================================================== stub world


def sev_is_error(name):
    return name in ("Error", "Todo", "Ghost")


def stub_property_checks(scn, W):
    """the properties evaluated on the REAL engine only (no Lean involved).
    returns (failures, facts)"""
    import engine_stub as es
    from vsg.vhdlFile import utils as vutils

    fails = []
    facts = []
    spec = {s["id"]: s for s in scn["rules"]}

    def in_range(s, skip):
        return (not s["disable"]) and s["phase"] in range(1, 8) and s["phase"] not in skip and s["sub"] in range(0, 6)

    # ---------------- C13: gated vs all phases on fresh rule objects, same file
    skip = scn["skip"]
    cskip = es.canon_skip(skip)
    base = dict(scn, fix=None)
    res = {}
    for ap in (False, True):
        s2 = dict(base, checks=[{"ap": ap, "clear": True}])
        _, info, _ = es.real_run(s2, W)
        res[ap] = info
    apc, gc = res[True]["checks"][0], res[False]["checks"][0]
    err_phases = sorted({spec[i]["phase"] for i, vs in apc["per"] if vs and sev_is_error(spec[i]["sev"])})
    pstar = err_phases[0] if err_phases else None
    expect = [(i, vs if (pstar is None or spec[i]["phase"] <= pstar) else []) for i, vs in apc["per"]]
    if expect != gc["per"]:
        fails.append(("C13", "rule_list.check_rules", "gatedNotPrefixOfAllPhases", "p*=%r gated=%r all=%r" % (pstar, gc["per"], apc["per"])))
    if gc["viol"] != apc["viol"]:
        fails.append(("C13", "rule_list.check_rules", "exitDiffersWithAllPhases", "gated %r, all phases %r" % (gc["viol"], apc["viol"])))
    for ck in (apc, gc):
        for i in ck["analyzed"]:
            if not in_range(spec[i], cskip):
                fails.append(("C13", "rule_list.check_rules", "analysedOutOfRangeOrSkipped", "%s phase=%s sub=%s skip=%r" % (i, spec[i]["phase"], spec[i]["sub"], skip)))
        for i, vs in ck["per"]:
            if vs and not in_range(spec[i], cskip):
                fails.append(("C13", "rule_list.check_rules", "skippedPhaseReported", "%s" % i))
    want_ap = [s["id"] for s in scn["rules"] if in_range(s, cskip)]
    if sorted(apc["analyzed"]) != sorted(want_ap):
        fails.append(("C13", "rule_list.check_rules", "allPhasesDidNotAnalyseEveryRule", "%r vs %r" % (apc["analyzed"], want_ap)))
    if not res[True]["final_tokens_unchanged_by_check"] or not res[False]["final_tokens_unchanged_by_check"]:
        fails.append(("C13", "rule_list.check_rules", "checkChangedTokens", ""))
    if any(vs for _, vs in apc["per"]):
        facts.append(("c13", (False, tuple(cskip), pstar)))
        facts.append(("c13", (True, tuple(cskip), pstar)))
    # exit flag <-> error-type violations in the report
    for ck in (apc, gc):
        has_err = any(vs and sev_is_error(spec[i]["sev"]) for i, vs in ck["per"])
        if has_err != ck["viol"]:
            fails.append(("C14", "rule_list.check_rules", "exitNotIffErrorTypeViolation", "flag=%r per=%r" % (ck["viol"], ck["per"])))

    # ---------------- fix runs
    if scn["fix"] is not None:
        fx = scn["fix"]
        N = int(fx["phase"])
        fskip = es.canon_skip(skip, max(9, N))

        def fix_run(fo):
            s2 = dict(base, fix=dict(fx, fo=fo), checks=[{"ap": True, "clear": True}])
            _, info, _ = es.real_run(s2, W)
            return info, info["found_at_fix"]

        info, found = fix_run(fx["fo"])
        for i, line, start in info["fixv"]:
            s = spec[i]
            if not (1 <= s["phase"] <= N) or s["phase"] in fskip or s["disable"] or s["sub"] not in range(0, 6):
                fails.append(("C13", "rule_list.fix", "fixedOutsideFixPhaseOrSkipped", "%s phase=%s fix_phase=%s skip=%r" % (i, s["phase"], N, skip)))
            if not sev_is_error(s["sev"]) or not s["fixable"]:
                fails.append(("C03", "rule_list.fix", "fixedUnfixableOrWarning", i))
        had = bool(info["fixv"])
        if ("HAD\t1" in info["lines"]) != had:
            fails.append(("C13", "rule_list.fix", "hadViolationsNotIffFixed", "had_violations %r, _fix_violation calls %d" % ("HAD\t1" in info["lines"], len(info["fixv"]))))
        # fix_only semantics
        fo = fx["fo"]
        listed = None
        if fo is not None:
            listed = fo.get("fix", {}).get("rule", {}) if isinstance(fo.get("fix", {}), dict) else {}
            if "fix" not in fo or "rule" not in fo["fix"]:
                listed = {}
            for i, line, start in info["fixv"]:
                items = listed.get(i)
                if items is None or not ("all" in items or line in items):
                    fails.append(("C20", "rule.Rule._filter_out_fix_only_violations", "fixedUnlisted", "%s line %d, listed %r" % (i, line, items)))
            for i, flines in found.items():
                items = listed.get(i)
                want = [] if items is None else [l for l in flines if ("all" in items or l in items)]
                got = [l for j, l, _ in info["fixv"] if j == i][::-1]
                if want != got:
                    fails.append(("C20", "rule.Rule._filter_out_fix_only_violations", "listedNotFixed", "%s found on lines %r listed %r fixed %r" % (i, flines, items, got)))
        # plain == every rule "all"
        if fo is None:
            info2, _ = fix_run({"fix": {"rule": {s["id"]: ["all"] for s in scn["rules"]}}})
            if (info2["after_fix"], info2["fixv"]) != (info["after_fix"], info["fixv"]):
                fails.append(("C20", "rule.Rule._filter_out_fix_only_violations", "allRulesAllNotPlainFix", ""))
        # nothing listed
        info3, _ = fix_run({"fix": {"rule": {}}})
        exp = info3["init"]
        if N >= 1 and 1 not in fskip:
            exp = _real_post(info3["init_objs"], W)
        if info3["fixv"] or info3["after_fix"] != exp or "HAD\t1" in info3["lines"]:
            fails.append(("C20", "rule.Rule._filter_out_fix_only_violations", "emptySelectionTouchesFile", "fixv=%r" % (info3["fixv"],)))
        filtered = fo is not None and any(len([l for j, l, _ in info["fixv"] if j == i]) < len(fl) for i, fl in found.items())
        facts.append(("c20", (fx["shape"], had, filtered)))

    # ---------------- C14: format against format on the scenario's own final report
    _, info, (oFile, rl) = es.real_run(scn, W)
    rep = {l.split("\t")[0]: l for l in info["report"]}
    if "VSG" in rep:
        vsg = rep["VSG"].split("\t")
        rows = [tuple(x.split(":")) for x in vsg[5].split(" ")] if vsg[5] else []
        syn = [tuple(x.split(":")) for x in rep["SYN"].split("\t")[1].split(" ")] if rep["SYN"].split("\t")[1] else []
        js = [tuple(x.split(":")) for x in rep["JSON"].split("\t")[1].split(" ")] if rep["JSON"].split("\t")[1] else []
        jun = [tuple(x.split(":")) for x in rep["JUN"].split("\t")[1].split(" ")] if rep["JUN"].split("\t")[1] else []
        qr = [tuple(x.split(":")) for x in rep["QR"].split("\t")[1].split(" ")] if rep["QR"].split("\t")[1] else []
        core_vsg = sorted((r, l, s) for r, _, l, s in rows)
        core_syn = sorted((r, l, s) for _, r, l, s in syn)
        core_js = sorted((r, l, s) for r, l, _, s in js)
        import leanio

        sevtype = {}
        for r in rl.rules:
            sevtype[leanio.enc_str(r.unique_id)] = r.severity.type == "error"
        if not (core_vsg == core_syn == core_js):
            fails.append(("C14", "rule_list.report_violations", "formatsDisagree", "vsg=%d syntastic=%d json=%d entries" % (len(rows), len(syn), len(js))))
        if [(r, l, s) for r, l, s in jun] != [(r, l, s) for r, l, _, s in js if sevtype[r]]:
            fails.append(("C14", "rule_list.extract_junit_testcase", "junitNotErrorTypeFilter", ""))
        if [(q[0], q[2]) for q in qr] != [(leanio.enc_str(leanio.dec_str(r) + " :: " + leanio.dec_str(s)), l) for r, l, _, s in js]:
            fails.append(("C14", "report/quality_report.build_report", "qualityReportEntriesDiffer", ""))
        total = int(vsg[3])
        counts = [x.split("=") for x in vsg[4].split(" ")] if vsg[4] else []
        if total != len(rows) or sum(int(c) for _, c in counts) != total or any(int(c) != sum(1 for r in rows if r[1] == n) for n, c in counts):
            fails.append(("C14", "rule_list.report_violations", "countsNotEntries", "total=%d rows=%d counts=%r" % (total, len(rows), counts)))
        any_syn_err = any(e == "1" for e, _, _, _ in syn)
        exit_flag = rep["EXIT"].split("\t")[1] == "1"
        if any_syn_err != exit_flag and len(scn["checks"]) == 1:
            fails.append(("C14", "rule_list.check_rules", "exitNotIffErrorTypeViolation", "exit=%r" % exit_flag))
        sm = rep["SUM"].split("\t")
        if (sm[1] == "1") != (not exit_flag) and len(scn["checks"]) == 1:
            fails.append(("C14", "report/summary_stdout.print_output", "statusKeyedOnSeverityNameError", "summary prints %s while the exit flag is %d; counters %s" % ("OK" if sm[1] == "1" else "ERROR", exit_flag, " ".join("%s=%s" % (leanio.dec_str(a), b) for a, b in (x.split("=") for x in sm[3].split(" "))))))
        for q, j in zip(qr, js):
            if (q[1] == "1") != sevtype[j[0]]:
                fails.append(("C14", "report/quality_report.remap_severity", "severityKeyedOnNameError", "rule %s of severity %s (type %s) is reported %s" % (leanio.dec_str(j[0]), leanio.dec_str(j[2]), "error" if sevtype[j[0]] else "warning", "critical" if q[1] == "1" else "minor")))
                break
        has_w = any(e == "0" for e, _, _, _ in syn)
        for fmt in ("vsg", "syntastic", "summary", "junit", "json", "quality"):
            facts.append(("c14", ("stub:user-sevs" if scn["user_sevs"] else "stub:built-in", fmt, int(exit_flag), has_w, any_syn_err)))
    return fails, facts


def _real_post(objs, W):
    """the real post-phase-1 normalisation applied to a fresh copy of the initial token list"""
    from vsg.vhdlFile import utils as vutils

    l = vutils.fix_blank_lines(list(objs))
    l = vutils.fix_trailing_whitespace(l)
    ci = W["ci"]
    return [(ci.of(o), o.get_value()) for o in l]


def stub_task(args):
    """one batch of stub scenarios: correspondence + property search.  returns dict"""
    prop, tag, start, count = args
    import random

    import engine_stub as es

    W = _W
    out = {"n": 0, "mismatch": [], "fails": [], "facts": collections.Counter(), "harness": [], "samples": []}
    if W.get("drv") is None:
        out["harness"].append("no driver")
        return out
    for k in range(start, start + count):
        rng = random.Random("%s/%d" % (tag, k))
        scn = es.gen_scenario(rng, W)
        try:
            real, info, _ = es.real_run(scn, W)
            lean = es.lean_run(W["drv"], scn, W, info["init"])
        except Exception:  # noqa: BLE001
            out["harness"].append(traceback.format_exc()[-600:])
            continue
        out["n"] += 1
        if real != lean:
            d = next(((a, b) for a, b in zip(real, lean) if a != b), (len(real), len(lean)))
            out["mismatch"].append({"scenario": scn, "real": str(d[0])[:400], "lean": str(d[1])[:400]})
        try:
            fails, facts = stub_property_checks(scn, W)
        except Exception:  # noqa: BLE001
            out["harness"].append(traceback.format_exc()[-800:])
            continue
        for p, site, kind, detail in fails:
            out["fails"].append({"prop": p, "site": site, "kind": kind, "detail": detail, "input": {"kind": "stub", "scenario": scn}})
        for tag_, v in facts:
            out["facts"][json.dumps([tag_, v])] += 1
        if k < start + 1:
            out["samples"].append({"scenario": {kk: scn[kk] for kk in ("text", "skip", "fix", "checks")}, "rules": [(s["id"], s["kind"], s["phase"], s["sub"], s["sev"]) for s in scn["rules"]], "real_first_lines": [l[:120] for l in real[:3]]})
    out["facts"] = list(out["facts"].items())
    return out


# ====================================================================== real rules, end to end


def pick_files(tag, n, lo=200, hi=3500, need=None):
    rng = common.rng("files/" + tag)
    fs = [f for f in gen_inputs.corpus_files() if lo <= os.path.getsize(f) <= hi]
    if need:
        fs = [f for f in fs if need(f)]
    rng.shuffle(fs)
    return fs[:n]


C13_CONFIGS = [
    ("default", [], None),
    ("skip-from-config", [{"skip_phase": [2, 5]}], None),
    ("rephased", [{"rule": {"signal_004": {"phase": 2}, "whitespace_013": {"phase": 7}, "architecture_010": {"phase": 6}, "entity_008": {"phase": 1}}}], None),
    ("warnings-and-user-severities", [{"severity": {"Todo": {"type": "error"}, "Future": {"type": "warning"}}, "rule": {"group": {"case": {"severity": "Warning"}, "blank_line": {"severity": "Future"}, "indent": {"severity": "Todo"}}}}], None),
    ("skip-1-3-rephased", [{"skip_phase": [1, 3], "rule": {"entity_017": {"phase": 2}, "process_016": {"phase": 3}}}], None),
]


def per_rule(rl):
    return [(r.unique_id, [(v.get_line_number(), v.get_solution()) for v in r.violations]) for r in rl.rules]


def real_c13_task(job):
    """gated vs all-phases report of one (file, configuration), each on a fresh parse"""
    import vsgrun
    from vsg import severity as vsev

    out = {"fails": [], "facts": [], "n": 0, "harness": []}
    try:
        text = gen_inputs.read_text(job["path"])
        lines = vsgrun.text_to_lines(text)
        name, dicts, _ = C13_CONFIGS[job["config"]]
        cla, oc = vsgrun.make_config(conf_dicts=dicts)
        skip = list(cla.skip_phase)
        runs = {}
        for ap in (False, True):
            try:
                o = vsgrun.parse(lines, cla, oc)
            except Exception:  # noqa: BLE001 - files that do not parse are not C13 inputs
                return out
            rl = vsgrun.new_rule_list(o, oc)
            before = [(type(t), t.get_value()) for t in o.lAllObjects]
            rl.clear_violations()
            rl.check_rules(bAllPhases=ap, lSkipPhase=skip)
            after = [(type(t), t.get_value()) for t in o.lAllObjects]
            if before != after:
                out["fails"].append({"prop": "C13", "site": "rule_list.check_rules", "kind": "checkChangedTokens", "detail": "check_rules changed the token list of %s" % job["path"], "input": dict(job, kind="real-c13")})
            runs[ap] = (per_rule(rl), bool(rl.violations), rl.lastPhaseRan, rl.iNumberRulesRan, {r.unique_id: (r.phase, r.severity.type == vsev.error_type, r.subphase, r.disable) for r in rl.rules})
        out["n"] = 1
        gper, gviol, glast, gnum, attrs = runs[False]
        aper, aviol, alast, anum, _ = runs[True]
        errp = sorted({attrs[i][0] for i, vs in aper if vs and attrs[i][1]})
        pstar = errp[0] if errp else None
        expect = [(i, vs if (pstar is None or attrs[i][0] <= pstar) else []) for i, vs in aper]
        if expect != gper:
            bad = [(i, a, b) for (i, a), (_, b) in zip(expect, gper) if a != b][:3]
            out["fails"].append({"prop": "C13", "site": "rule_list.check_rules", "kind": "gatedNotPrefixOfAllPhases", "detail": "%s config %s: first failing phase %r; differing rules (expected, gated): %r" % (job["path"], name, pstar, bad), "input": dict(job, kind="real-c13")})
        if gviol != aviol:
            out["fails"].append({"prop": "C13", "site": "rule_list.check_rules", "kind": "exitDiffersWithAllPhases", "detail": "%s config %s" % (job["path"], name), "input": dict(job, kind="real-c13")})
        for i, vs in aper:
            ph, _, sub, dis = attrs[i]
            if vs and (ph in skip or ph not in range(1, 8) or dis):
                out["fails"].append({"prop": "C13", "site": "rule_list.check_rules", "kind": "skippedPhaseReported", "detail": "%s reports in phase %r, skip %r" % (i, ph, skip), "input": dict(job, kind="real-c13")})
        if pstar is not None and glast != pstar:
            out["fails"].append({"prop": "C13", "site": "rule_list.check_rules", "kind": "stopPhaseNotFirstFailing", "detail": "lastPhaseRan %r, first failing %r" % (glast, pstar), "input": dict(job, kind="real-c13")})
        if any(vs for _, vs in aper):
            out["facts"].append(("c13", (False, tuple(p for p in range(1, 8) if p in skip), pstar)))
            out["facts"].append(("c13", (True, tuple(p for p in range(1, 8) if p in skip), pstar)))
    except Exception:  # noqa: BLE001
        out["harness"].append(traceback.format_exc()[-800:])
    return out


def real_cli13_task(job):
    """the CLI itself: `vsg -f x --json …` against `vsg -f x -ap --json …`; the gated JSON must be the
    all-phases JSON restricted to rules of phase <= the phase printed in "Phase N of 7" when the run failed"""
    out = {"fails": [], "facts": [], "n": 0, "harness": []}
    d = tempfile.mkdtemp(prefix="vsgverif-")
    try:
        import engine_stub as es

        p = os.path.join(d, "x.vhd")
        open(p, "w", encoding="utf-8").write(gen_inputs.read_text(job["path"]))
        name, dicts, _ = C13_CONFIGS[job["config"]]
        cp = os.path.join(d, "c.json")
        json.dump(dicts[0] if dicts else {}, open(cp, "w"))
        runs = {}
        for ap in (False, True):
            jp = os.path.join(d, "o%d.json" % ap)
            code, so, se = run_main(["-f", p, "-c", cp, "-p", "1", "--json", jp] + (["-ap"] if ap else []))
            if not os.path.exists(jp) or "Error while processing" in se:
                return out
            stop = es.parse_vsg(split_vsg_blocks(so)[p])[0]
            runs[ap] = (code, stop, [(v["rule"], v["linenumber"], v["solution"]) for v in json.load(open(jp))["files"][0]["violations"]])
        out["n"] = 1
        phase = {r["id"]: r["phase"] for r in _W["tables"]["rules"]}
        for rid, cfg in (dicts[0].get("rule", {}) if dicts else {}).items():
            if isinstance(cfg, dict) and "phase" in cfg:
                phase[rid] = cfg["phase"]
        (gc, gstop, gj), (ac, astop, aj) = runs[False], runs[True]
        want = [v for v in aj if gc == 0 or phase.get(v[0], 0) <= gstop]
        inp = dict(job, kind="real-cli13")
        if gj != want:
            out["fails"].append({"prop": "C13", "site": "rule_list.check_rules", "kind": "gatedNotPrefixOfAllPhases", "detail": "CLI on %s (%s): gated JSON has %d entries, all-phases JSON restricted to phase <= %d has %d" % (job["path"], name, len(gj), gstop, len(want)), "input": inp})
        if gc != ac:
            out["fails"].append({"prop": "C13", "site": "rule_list.check_rules", "kind": "exitDiffersWithAllPhases", "detail": "CLI on %s: %r vs %r" % (job["path"], gc, ac), "input": inp})
        out["facts"].append(("c13", ("cli", gstop if gc else None, bool(aj))))
    except Exception:  # noqa: BLE001
        out["harness"].append(traceback.format_exc()[-800:])
    finally:
        shutil.rmtree(d, ignore_errors=True)
    return out


def tv(rawsnap):
    return [(type(o), v) for o, v in rawsnap]


def real_fixphase_task(job):
    """--fix_phase N for N in 1..7 on one file: no edit by a rule of phase > N or of a skipped
    phase; the result equals the state of the full run after its last phase <= N"""
    import vsgrun

    out = {"fails": [], "facts": [], "n": 0, "harness": []}
    try:
        text = gen_inputs.read_text(job["path"])
        lines = vsgrun.text_to_lines(text)
        name, dicts, _ = C13_CONFIGS[job["config"]]
        cla, oc = vsgrun.make_config(conf_dicts=dicts)
        skip = list(cla.skip_phase)
        ci = _W["ci"]

        def run(N):
            o = vsgrun.parse(lines, cla, oc)
            rl = vsgrun.new_rule_list(o, oc)
            init = vsgrun.raw(o.lAllObjects)
            steps, exc, _ = vsgrun.instrumented_fix(o, rl, ci, fix_phase=N, skip_phase=skip)
            return init, steps, exc, vsgrun.raw(o.lAllObjects)

        try:
            init, full, exc, final = run(7)
        except Exception:  # noqa: BLE001
            return out
        if exc is not None:
            return out
        for N in job["phases"]:
            init_n, steps, exc, final_n = run(str(N) if N % 2 else N)
            out["n"] += 1
            for st in steps:
                if st.kind == "fix" and (st.edits or st.changed) and (st.phase > N or st.phase in skip):
                    out["fails"].append({"prop": "C13", "site": "rule_list.fix", "kind": "fixedOutsideFixPhaseOrSkipped", "detail": "%s (phase %s) edits with --fix_phase %d skip %r on %s" % (st.rule, st.phase, N, skip, job["path"]), "input": dict(job, kind="real-fixphase")})
            cur = init
            for st in full:
                if st.phase > N:
                    break
                if st.changed:
                    cur = st.after
            if tv(cur) != tv(final_n):
                out["fails"].append({"prop": "C13", "site": "rule_list.fix", "kind": "fixPhaseNotPrefixOfFullFix", "detail": "--fix_phase %d on %s differs from the full run after phase %d" % (N, job["path"], N), "input": dict(job, kind="real-fixphase")})
            out["facts"].append(("c13fp", (N, tuple(skip), any(st.changed for st in steps))))
    except Exception:  # noqa: BLE001
        out["harness"].append(traceback.format_exc()[-800:])
    return out


LINE_LOCAL_GROUPS = {"whitespace", "indent", "alignment", "case"}


def run_apply_rules(path_text, conf_dicts, fix, fix_only=None, fmt="vsg", all_phases=False, fix_phase=7, want_reports=False):
    """the real apply_rules.apply_rules on a scratch copy; returns dict(text after, status, stdout …)"""
    import vsgrun
    from vsg import apply_rules

    d = tempfile.mkdtemp(prefix="vsgverif-")
    try:
        p = os.path.join(d, "t.vhd")
        with open(p, "w", encoding="utf-8", newline="") as f:
            f.write(path_text)
        st0 = os.stat(p)
        kw = {"fix": fix, "output_format": fmt, "all_phases": all_phases, "fix_phase": fix_phase, "filename": [p]}
        if want_reports:
            kw.update(junit="j.xml", json="j.json")
        if fix_only is not None:
            fo = os.path.join(d, "fo.json")
            json.dump(fix_only, open(fo, "w"))
            kw["fix_only"] = fo
        cla, oc = vsgrun.make_config(conf_dicts=conf_dicts, tmpdir=d, **kw)
        with contextlib.redirect_stdout(io.StringIO()):
            status, tc, dj, so, se, stop = apply_rules.apply_rules(cla, oc, (0, p))
        after = open(p, encoding="utf-8", newline="").read()
        st1 = os.stat(p)
        return {"after": after, "status": status, "json": dj, "stdout": so, "stderr": se, "written": (st0.st_ino, st0.st_mtime_ns) != (st1.st_ino, st1.st_mtime_ns), "testcase": tc}
    finally:
        shutil.rmtree(d, ignore_errors=True)


def real_c20_task(job):
    import vsgrun

    out = {"fails": [], "facts": [], "n": 0, "harness": []}
    try:
        text = gen_inputs.read_text(job["path"])
        if not text.endswith("\n"):
            text += "\n"
        lines = vsgrun.text_to_lines(text)
        cla, oc = vsgrun.make_config()
        try:
            o = vsgrun.parse(lines, cla, oc)
        except Exception:  # noqa: BLE001
            return out
        rl = vsgrun.new_rule_list(o, oc)
        rep = vsgrun.check_report(o, rl, all_phases=True)
        if not rep:
            return out
        ids = [r.unique_id for r in rl.rules]
        inp = dict(job, kind="real-c20")
        rng = common.rng("c20/%s" % job["path"])
        plain = run_apply_rules(text, [], True)
        # every rule "all" == plain fix
        allall = run_apply_rules(text, [], True, {"fix": {"rule": {i: ["all"] for i in ids}}})
        out["n"] += 1
        out["facts"].append(("c20", ("real:all-rules-all", plain["written"], False)))
        if allall["after"] != plain["after"]:
            out["fails"].append({"prop": "C20", "site": "rule.Rule._filter_out_fix_only_violations", "kind": "allRulesAllNotPlainFix", "detail": job["path"], "input": inp})
        # nothing listed: untouched (not even written)
        for shape, fo in (("empty", {"fix": {"rule": {}}}), ("no-rule-key", {"fix": {}}), ("no-fix-key", {})):
            r = run_apply_rules(text, [], True, fo)
            out["n"] += 1
            out["facts"].append(("c20", ("real:" + shape, False, True)))
            if r["after"] != text or r["written"]:
                out["fails"].append({"prop": "C20", "site": "rule.Rule._filter_out_fix_only_violations", "kind": "emptySelectionTouchesFile", "detail": "%s with %r: written=%r" % (job["path"], fo, r["written"]), "input": inp})
        # random selections among line-local rules
        rb = _W["rule_by_id"]
        cand = collections.defaultdict(list)
        for rid, line, sol in rep:
            row = rb.get(rid)
            if row and row["phase"] in (2, 4, 5, 6) and set(row["groups"]) & LINE_LOCAL_GROUPS and row["fixable"] and row["sevError"]:
                cand[rid].append(line)
        orig_lines = text.split("\n")
        ws_lines = {i + 1 for i, l in enumerate(orig_lines) if l != l.rstrip(" \t")}
        for trial in range(job.get("trials", 3)):
            if not cand:
                break
            sel = {}
            for rid in rng.sample(sorted(cand), min(len(cand), rng.randrange(1, 4))):
                ls = sorted(set(cand[rid]))
                sel[rid] = sorted(rng.sample(ls, rng.randrange(1, len(ls) + 1)))
            r = run_apply_rules(text, [], True, {"fix": {"rule": sel}})
            out["n"] += 1
            new_lines = r["after"].split("\n")
            listed = set()
            for ls in sel.values():
                listed.update(ls)
            out["facts"].append(("c20", ("real:sel:lines", r["written"], True)))
            if len(new_lines) != len(orig_lines):
                out["fails"].append({"prop": "C20", "site": "rule.Rule._filter_out_fix_only_violations", "kind": "lineCountChanged", "detail": "%s selection %r: %d -> %d lines" % (job["path"], sel, len(orig_lines), len(new_lines)), "input": dict(inp, selection=sel)})
                continue
            changed = {i + 1 for i, (a, b) in enumerate(zip(orig_lines, new_lines)) if a != b}
            extra = changed - listed - ws_lines
            if extra:
                out["fails"].append({"prop": "C20", "site": "rule.Rule._filter_out_fix_only_violations", "kind": "unlistedLineChanged", "detail": "%s selection %r changed lines %r" % (job["path"], sel, sorted(extra)), "input": dict(inp, selection=sel)})
            missing = listed - changed
            if missing:
                out.setdefault("notes", []).append("listed but unchanged: %s %r %r" % (job["path"], sel, sorted(missing)))
    except Exception:  # noqa: BLE001
        out["harness"].append(traceback.format_exc()[-800:])
    return out


# ---------------------------------------------------------------------- C14: __main__.main

SEV_SETUPS = [
    ("default", {}),
    ("some-warnings", {"rule": {"group": {"case": {"severity": "Warning"}, "blank_line": {"severity": "Warning"}}}}),
    ("user-error-type", {"severity": {"Todo": {"type": "error"}}, "rule": {"group": {"case": {"severity": "Todo"}, "whitespace": {"severity": "Todo"}}}}),
    ("user-warning-type", {"severity": {"Future": {"type": "warning"}}, "rule": {"group": {"case": {"severity": "Future"}, "whitespace": {"severity": "Future"}, "blank_line": {"severity": "Warning"}}}}),
    ("all-warnings", {"rule": {"global": {"severity": "Warning"}}}),
    ("all-user-error-type", {"severity": {"Todo": {"type": "error"}}, "rule": {"global": {"severity": "Todo"}}}),
]

BAD_VHDL = "entity broken is\n  port (\n    a : in std_logic\n  );\nend entity broken\n\narchitecture rtl of broken is\nbegin\n  process begin end;\nend architecture;\n"


def run_main(argv):
    """vsg.__main__.main in-process; returns (exit code, stdout, stderr)"""
    from vsg import __main__ as vmain

    so, se = io.StringIO(), io.StringIO()
    old = sys.argv
    sys.argv = ["vsg"] + argv
    code = None
    try:
        with contextlib.redirect_stdout(so), contextlib.redirect_stderr(se):
            try:
                vmain.main()
            except SystemExit as e:
                code = e.code
            except Exception:  # noqa: BLE001 - what the interpreter does with an uncaught exception
                traceback.print_exc(file=se)
                code = 1
    finally:
        sys.argv = old
    if code is None or code is False:
        code = 0
    elif code is True:
        code = 1
    return code, so.getvalue(), se.getvalue()


def split_vsg_blocks(text):
    """the per-file blocks of the standard output (each starts with the 80 '=' header)"""
    blocks = []
    cur = None
    lines = text.split("\n")
    i = 0
    while i < len(lines):
        if lines[i] == "=" * 80 and i + 2 < len(lines) and lines[i + 1].startswith("File:  ") and lines[i + 2] == "=" * 80:
            cur = [lines[i], lines[i + 1], lines[i + 2]]
            blocks.append(cur)
            i += 3
            continue
        if cur is not None:
            cur.append(lines[i])
        i += 1
    return {b[1][len("File:  ") :]: "\n".join(b).rstrip("\n") for b in blocks}


def real_c14_task(job):
    import engine_stub as es
    import vsgrun
    import xml.etree.ElementTree as ET

    out = {"fails": [], "facts": [], "n": 0, "harness": [], "lean": []}
    d = tempfile.mkdtemp(prefix="vsgverif-")
    try:
        setup_name, conf = SEV_SETUPS[job["setup"]]
        files = []
        for k, src in enumerate(job["files"]):
            p = os.path.join(d, "f%d.vhd" % k)
            text = BAD_VHDL if src == "<bad>" else gen_inputs.read_text(src)
            with open(p, "w", encoding="utf-8") as f:
                f.write(text)
            files.append(p)
        cp = os.path.join(d, "conf.json")
        json.dump(conf, open(cp, "w"))
        sev_type = {"Error": True, "Warning": False}
        for k, v in conf.get("severity", {}).items():
            sev_type[k] = v["type"] == "error"
        inp = {"kind": "real-c14", "setup": job["setup"], "files": job["files"], "ap": job.get("ap", False)}
        per_format = {}
        for fmt in ("vsg", "syntastic", "summary"):
            jp, xp, qp = (os.path.join(d, "o_%s.%s" % (fmt, e)) for e in ("json", "xml", "q.json"))
            argv = ["-f"] + files + ["-c", cp, "-of", fmt, "-p", "1", "--json", jp, "--junit", xp, "--quality_report", qp] + (["-ap"] if job.get("ap") else [])
            code, so, se = run_main(argv)
            out["n"] += 1
            if "Traceback" in se or not (os.path.exists(jp) and os.path.exists(xp) and os.path.exists(qp)):
                out["fails"].append({"prop": "C14", "site": "__main__.main", "kind": "reportNotWritten", "detail": "exit %r, json %r junit %r quality %r; stderr tail: %s" % (code, os.path.exists(jp), os.path.exists(xp), os.path.exists(qp), se[-300:]), "input": inp})
                continue
            dj = json.load(open(jp))
            qr = json.load(open(qp))
            root = ET.parse(xp).getroot()
            jfiles = {e["file_path"]: e["violations"] for e in dj["files"]}
            junit = {}
            for tc in root.findall("testcase"):
                rows = []
                for fl in tc.findall("failure"):
                    for l in (fl.text or "").split("\n"):
                        l = l.strip()
                        if l:
                            m = re.match(r"(\S+): (-?\d+) : (.*)$", l)
                            rows.append((m.group(1), int(m.group(2)), m.group(3)) if m else ("<message>", -1, l))
                junit[tc.get("name")] = rows
            per_format[fmt] = (code, so, se, jfiles, junit, qr)
            # ---- per file comparisons
            parse_failed = [p for p in files if p in junit and any(r[0] == "<message>" for r in junit[p])]
            any_err = False
            for p in files:
                if p not in jfiles:
                    out["fails"].append({"prop": "C14", "site": "__main__.main", "kind": "fileMissingFromJson", "detail": p, "input": inp})
                    continue
                js = [(v["rule"], v["linenumber"], v["solution"]) for v in jfiles[p]]
                jsev = [v["severity"] for v in jfiles[p]]
                err_js = [c for c, s in zip(js, jsev) if sev_type.get(s, True)]
                any_err = any_err or bool(err_js)
                if p in parse_failed:
                    continue
                if junit.get(p, []) != err_js:
                    out["fails"].append({"prop": "C14", "site": "rule_list.extract_junit_testcase", "kind": "junitNotErrorTypeFilter", "detail": "%s (%s): junit %r vs error-type json %r" % (job["files"][files.index(p)], setup_name, junit.get(p, [])[:3], err_js[:3]), "input": inp})
                q = [(e["description"], e["location"]["lines"]["begin"]) for e in qr if e["location"]["path"] == p]
                if q != [(r + " :: " + s, l) for r, l, s in js]:
                    out["fails"].append({"prop": "C14", "site": "report/quality_report.build_report", "kind": "qualityReportEntriesDiffer", "detail": p, "input": inp})
                for e, s in zip([e for e in qr if e["location"]["path"] == p], jsev):
                    if (e["severity"] == "critical") != sev_type.get(s, True):
                        out["fails"].append({"prop": "C14", "site": "report/quality_report.remap_severity", "kind": "severityKeyedOnNameError", "detail": "severity %s (type %s) reported %s, set-up %s" % (s, "error" if sev_type.get(s, True) else "warning", e["severity"], setup_name), "input": inp})
                        break
                if fmt == "vsg":
                    blk = split_vsg_blocks(so).get(p)
                    if blk is None:
                        out["fails"].append({"prop": "C14", "site": "report/vsg_stdout.print_output", "kind": "fileMissingFromStdout", "detail": p, "input": inp})
                        continue
                    stop, num, total, sevs, rows = es.parse_vsg(blk)
                    if sorted((r, l, s) for r, _, l, s in rows) != sorted(js):
                        out["fails"].append({"prop": "C14", "site": "rule_list.report_violations", "kind": "formatsDisagree", "detail": "%s: vsg %d rows, json %d" % (p, len(rows), len(js)), "input": inp})
                    if sorted((r, sv) for r, sv, _, _ in rows) != sorted((c[0], s) for c, s in zip(js, jsev)):
                        out["fails"].append({"prop": "C14", "site": "rule_list.report_violations", "kind": "severityNamesDisagree", "detail": p, "input": inp})
                    if total != len(rows) or sum(c for _, c in sevs) != total or any(c != sum(1 for r in rows if r[1] == n) for n, c in sevs):
                        out["fails"].append({"prop": "C14", "site": "rule_list.report_violations", "kind": "countsNotEntries", "detail": "%s total=%d rows=%d %r" % (p, total, len(rows), sevs), "input": inp})
                    if [l for _, _, l, _ in rows] != sorted(l for _, _, l, _ in rows):
                        out["fails"].append({"prop": "C14", "site": "rule_list.report_violations", "kind": "notSortedByLine", "detail": p, "input": inp})
                elif fmt == "syntastic":
                    rows = [l for l in so.split("\n") if re.match(r"(ERROR|WARNING): " + re.escape(p) + r"\(", l)]
                    syn = es.parse_syntastic("\n".join(rows), p)
                    if sorted((r, l, s) for _, r, l, s in syn) != sorted(js):
                        out["fails"].append({"prop": "C14", "site": "report/syntastic_stdout.print_output", "kind": "formatsDisagree", "detail": "%s: syntastic %d, json %d" % (p, len(syn), len(js)), "input": inp})
                    if sorted((r, l, s) for e, r, l, s in syn if e) != sorted(err_js):
                        out["fails"].append({"prop": "C14", "site": "report/syntastic_stdout.print_output", "kind": "statusWordNotSeverityType", "detail": p, "input": inp})
                else:
                    cand = [l for l in (so + "\n" + se).split("\n") if l.startswith("File: " + p + " ")]
                    if len(cand) != 1:
                        out["fails"].append({"prop": "C14", "site": "report/summary_stdout.print_output", "kind": "fileMissingFromStdout", "detail": p, "input": inp})
                        continue
                    ok, num, sevs = es.parse_summary(cand[0], p)
                    cnt = collections.Counter(jsev)
                    if any(c != cnt.get(n, 0) for n, c in sevs) or sum(c for _, c in sevs) != len(js):
                        out["fails"].append({"prop": "C14", "site": "report/summary_stdout.print_output", "kind": "countsNotEntries", "detail": "%s %r vs %r" % (p, sevs, dict(cnt)), "input": inp})
                    on_err = any(l.startswith("File: " + p + " ") for l in se.split("\n"))
                    if ok != (not err_js) or on_err != bool(err_js):
                        out["fails"].append({"prop": "C14", "site": "report/summary_stdout.print_output", "kind": "statusKeyedOnSeverityNameError", "detail": "%s: summary says %s on %s, %d error-type violations (set-up %s): %s" % (job["files"][files.index(p)], "OK" if ok else "ERROR", "stderr" if on_err else "stdout", len(err_js), setup_name, cand[0][len(p) + 7 :]), "input": inp})
                has_w = any(not sev_type.get(s, True) for s in jsev)
                out["facts"].append(("c14", ("real:" + setup_name, fmt, code, has_w, bool(err_js))))
            # ---- exit status of the run
            want = 1 if (any_err or parse_failed) else 0
            if code != want:
                out["fails"].append({"prop": "C14", "site": "__main__.main", "kind": "exitStatusNotIffErrors", "detail": "exit %r; error-type violations %r, files failing to parse %r (set-up %s)" % (code, any_err, len(parse_failed), setup_name), "input": inp})
            out["lean"].append((["K" if p in parse_failed else ("c1" if any(sev_type.get(v["severity"], True) for v in jfiles.get(p, [])) else "c0") for p in files], code))
        # the three runs must produce the same JSON / JUnit / quality files
        keys = list(per_format)
        for a, b in zip(keys, keys[1:]):
            if per_format[a][3] != per_format[b][3] or per_format[a][4] != per_format[b][4] or [{k: v for k, v in e.items() if k != "fingerprint"} for e in per_format[a][5]] != [{k: v for k, v in e.items() if k != "fingerprint"} for e in per_format[b][5]]:
                out["fails"].append({"prop": "C14", "site": "__main__.main", "kind": "filesDependOnOutputFormat", "detail": "%s vs %s" % (a, b), "input": inp})
            if per_format[a][0] != per_format[b][0]:
                out["fails"].append({"prop": "C14", "site": "__main__.main", "kind": "exitDependsOnOutputFormat", "detail": "%s: %r, %s: %r" % (a, per_format[a][0], b, per_format[b][0]), "input": inp})
    except Exception:  # noqa: BLE001
        out["harness"].append(traceback.format_exc()[-900:])
    finally:
        shutil.rmtree(d, ignore_errors=True)
    return out


def config_error_probe():
    """a configuration that names an unknown rule + every report option: exit status non-zero,
    no traceback, every requested report file written and parseable"""
    d = tempfile.mkdtemp(prefix="vsgverif-")
    fails = []
    try:
        p = os.path.join(d, "a.vhd")
        open(p, "w").write("entity a is\nend entity a;\n")
        cp = os.path.join(d, "bad.json")
        json.dump({"rule": {"nosuch_001": {"disable": True}}}, open(cp, "w"))
        for opts, name in ((["--junit", os.path.join(d, "o.xml"), "--json", os.path.join(d, "o.json")], "junit+json"), (["--json", os.path.join(d, "o2.json")], "json")):
            code, so, se = run_main(["-f", p, "-c", cp, "-p", "1"] + opts)
            tb = "Traceback" in se
            wrote = all(os.path.exists(x) and os.path.getsize(x) > 0 for x in opts[1::2])
            if code == 0 or tb or not wrote:
                fails.append({"prop": "C14", "site": "__main__.main", "kind": "reportNotWrittenOnConfigurationError", "detail": "options %s: exit %r, traceback %r, all report files written %r; stderr tail: %s" % (name, code, tb, wrote, se.strip().split("\n")[-1][:200]), "input": {"kind": "config-error-probe"}})
    finally:
        shutil.rmtree(d, ignore_errors=True)
    return fails


def cli_exit_probe(files_conf):
    """true process exit codes through /venv/bin/vsg for a few cases"""
    res = []
    d = tempfile.mkdtemp(prefix="vsgverif-")
    try:
        for name, texts, conf, want in files_conf:
            ps = []
            for k, t in enumerate(texts):
                p = os.path.join(d, "%s_%d.vhd" % (name, k))
                open(p, "w").write(t)
                ps.append(p)
            cp = os.path.join(d, name + ".json")
            json.dump(conf, open(cp, "w"))
            r = subprocess.run(["/venv/bin/vsg", "-f"] + ps + ["-c", cp, "-p", "1", "-of", "summary"], stdout=subprocess.PIPE, stderr=subprocess.PIPE, text=True)
            res.append((name, r.returncode, want, r.stdout.strip()[-200:], [l for l in r.stderr.strip().split("\n") if l.startswith(("File:", "Error"))][-2:]))
    finally:
        shutil.rmtree(d, ignore_errors=True)
    return res


# ====================================================================== run


def run(prop, tier):
    res = common.Result(prop, tier)
    ok_model, tables, nobl, ndis, thms = common.lean_phase(res, prop)
    if not ok_model:
        return res.finish(max(nobl, 1), 0, "lake build VsgModel driver VsgProofs.Properties.%s" % prop, thms)
    quick = tier == "quick"
    seedv = common.seed()
    nstub = 2000 if quick else 100000
    batch = 25 if quick else 250
    tasks = [("stub", (prop, "stub/%d" % seedv, s, min(batch, nstub - s))) for s in range(0, nstub, batch)]
    if prop == "C13":
        files = pick_files("c13/%d" % seedv, 160 if quick else 1200, need=lambda f: "test_input" in f or "/styles/" in f or "/rule_doc/" in f)
        for i, f in enumerate(files):
            tasks.append(("c13", {"path": f, "config": i % len(C13_CONFIGS)}))
            if i % 3 == 0:
                tasks.append(("c13", {"path": f, "config": (i + 1) % len(C13_CONFIGS)}))
        for i, f in enumerate(files[: 16 if quick else 120]):
            tasks.append(("cli13", {"path": f, "config": [0, 1, 2, 4][i % 4]}))
        for i, f in enumerate(pick_files("fp/%d" % seedv, 16 if quick else 100, lo=400, hi=2500, need=lambda f: "test_input" in f or "/styles/" in f)):
            tasks.append(("fp", {"path": f, "config": [0, 1, 2, 4][i % 4], "phases": [1, 2, 3, 4, 5, 6, 7]}))
    elif prop == "C20":
        for f in pick_files("c20/%d" % seedv, 48 if quick else 400, lo=300, hi=3000, need=lambda f: "test_input.vhd" in f or "/styles/" in f):
            tasks.append(("c20", {"path": f, "trials": 3 if quick else 20}))
    else:
        good = pick_files("c14/%d" % seedv, 30 if quick else 300, lo=200, hi=2500, need=lambda f: "test_input.vhd" in f)
        warn_only = [f for f in gen_inputs.corpus_files() if f.endswith(("length/rule_001_test_input.vhd", "length/rule_002_test_input.vhd"))][:2]
        k = 0
        for s in range(len(SEV_SETUPS)):
            for b in range(4 if quick else 30):
                fs = good[k % len(good) : k % len(good) + 2]
                k += 2
                if b == 0:
                    fs = fs[:1] + ["<bad>"] + fs[1:]
                if b == 1 and warn_only:
                    fs = fs + warn_only[:1]
                tasks.append(("c14", {"setup": s, "files": fs, "ap": b % 2 == 1}))
        tasks.append(("c14", {"setup": 4, "files": warn_only or good[:1], "ap": True}))
    t0 = time.time()
    with multiprocessing.Pool(16, initializer=_init) as pool:
        results = pool.map(_dispatch, tasks, chunksize=1)
    # ---------------- aggregate
    n_stub = n_real = 0
    facts = collections.Counter()
    seen = set()
    samples = []
    mism = []
    lean_main = []
    notes = []
    for (kind, _), r in zip(tasks, results):
        for h in r.get("harness", []):
            res.notes.append("harness error: " + h[-300:])
        if kind == "stub":
            n_stub += r["n"]
            mism.extend(r["mismatch"])
            samples.extend(r["samples"][:1])
            for k, v in r["facts"]:
                facts[k] += v
        else:
            n_real += r["n"]
            for k, v in r["facts"]:
                facts[json.dumps([k, v])] += 1
            lean_main.extend(r.get("lean", []))
            notes.extend(r.get("notes", []))
        for f in r["fails"]:
            if f["prop"] != prop:
                continue
            key = (f["site"], f["kind"])
            if key in seen:
                continue
            seen.add(key)
            res.fail(f["site"], f["kind"], f["detail"], f["input"])
    for m in mism[:3]:
        res.proof_break("correspondence engine model vs real engine (stub rules)", m)
    sweep_cov = {}
    if prop == "C20":
        # the real rules: instrumented fix runs of the standard sweep that carry a --fix_only dictionary (every rule
        # "all", or (rule, reported line) selections): per rule step, fixed == found on a listed (rule, line)
        import sweep

        agg = sweep.cached_sweep(tier, ("trace",))
        for f in agg["failures"]:
            if f["prop"] == "C20" and (f["site"], f["kind"]) not in seen:
                seen.add((f["site"], f["kind"]))
                res.fail(f["site"], f["kind"], f["detail"], f.get("input"))
        sweep_cov = {"real_rule_fix_steps_checked_under_fix_only": agg.get("c20_steps", 0), "sweep_from_cache": agg.get("from_cache")}
    harness_errors = [n for n in res.notes if n.startswith("harness error")]
    if harness_errors:
        print("HARNESS-ERROR property=%s %s" % (prop, harness_errors[0][:300]))
    extra = {}
    if prop == "C14":
        # model of __main__'s OR against the exit codes observed
        import leanio

        drv = leanio.Driver("engine")
        bad = 0
        for outcomes, code in lean_main:
            drv.send("MAIN\t" + " ".join(outcomes))
            drv.flush()
            l = drv.read()
            drv.read()
            if l.split("\t")[1] != str(int(bool(code))):
                bad += 1
                res.proof_break("correspondence mainExit vs __main__.main", {"outcomes": outcomes, "exit": code, "lean": l})
        drv.close()
        extra["main_exit_correspondence"] = {"runs": len(lean_main), "disagreements": bad}
        for f in config_error_probe():
            if (f["site"], f["kind"]) not in seen:
                seen.add((f["site"], f["kind"]))
                res.fail(f["site"], f["kind"], f["detail"], f["input"])
        cli = cli_exit_probe(
            [
                ("clean", ["\nentity a is\nend entity a;\n"], {}, 0),
                ("warnonly", ["\nentity a is\nend entity A;\n"], {"rule": {"global": {"severity": "Warning"}}}, 0),
                ("error", ["\nentity a is\nend entity A;\n"], {}, 1),
                ("parsefail+clean", [BAD_VHDL, "\nentity a is\nend entity a;\n"], {}, 1),
            ]
        )
        extra["cli_exit_codes"] = [{"case": n, "exit": c, "expected": w, "stdout": so, "stderr": se} for n, c, w, so, se in cli]
        for n, c, w, so, se in cli:
            if c != w:
                res.fail("__main__.main", "exitStatusNotIffErrors", "CLI case %s: exit %d, expected %d" % (n, c, w), {"kind": "cli-probe", "case": n})
    pref = {"C13": ("c13",), "C20": ("c20",), "C14": ("c14",)}[prop]
    mine = {k: v for k, v in facts.items() if json.loads(k)[0] in pref or (prop == "C13" and json.loads(k)[0] == "c13fp")}
    res.coverage.update(sweep_cov)
    res.coverage.update(
        {
            "evaluations": n_stub + n_real + sweep_cov.get("real_rule_fix_steps_checked_under_fix_only", 0),
            "distinct_nontrivial": len(mine),
            "rule": RULE[prop],
            "samples": samples[:4] + [{"combination": json.loads(k), "count": v} for k, v in sorted(mine.items(), key=lambda kv: -kv[1])[:6]],
            "stub_scenarios": n_stub,
            "stub_correspondence_mismatches": len(mism),
            "real_rule_runs": n_real,
            "real_jobs_sample": [a for k, a in tasks if k != "stub"][:4],
            "wall_explore_s": round(time.time() - t0, 1),
            "notes": notes[:5],
        }
    )
    res.coverage.update(extra)
    res.assumptions = [
        "the model treats rule semantics as a parameter: the theorems hold for every analyze/_fix_violation; correspondence of the engine itself is checked with the stub kinds S/I/D of Stub.lean on the explored scenarios",
        "a check run is read-only on the token list (compared before/after on every explored run of real rules)",
        "rule objects are distinct objects appearing once in rule_list.rules; rule.violations is empty when rule_list.fix starts (apply_rules builds a fresh rule_list)",
        "every violation has a solution string (sSolution is not None); line numbers are non-negative integers",
        "the fix_only file follows the documented shape {'fix': {'rule': {id: [items]}}} with list values; items that are neither 'all' nor integers never select anything",
        "text layout of the reports is not modelled: simple parsers (engine_stub.parse_*) turn the real outputs back into records and are trusted",
    ]
    return res.finish(max(nobl, 1), ndis, "cd lean && lake build VsgProofs.Properties.%s && lake env lean <audit file with #print axioms>" % prop, thms)


def _dispatch(task):
    kind, arg = task
    try:
        if kind == "stub":
            return stub_task(arg)
        if kind == "c13":
            return real_c13_task(arg)
        if kind == "fp":
            return real_fixphase_task(arg)
        if kind == "cli13":
            return real_cli13_task(arg)
        if kind == "c20":
            return real_c20_task(arg)
        if kind == "c14":
            return real_c14_task(arg)
    except Exception:  # noqa: BLE001
        return {"n": 0, "fails": [], "facts": [], "harness": [traceback.format_exc()[-800:]], "mismatch": [], "samples": []}
    return {"n": 0, "fails": [], "facts": [], "harness": ["unknown task"], "mismatch": [], "samples": []}


def replay(prop, path):
    import gen_tables

    gen_tables.generate()
    d = json.load(open(path))
    if d.get("kind") == "no-failing-input-found":
        print(json.dumps(d, indent=1)[:4000])
        return 0
    inp = d["input"]
    _init()
    kind = inp.get("kind")
    if kind == "stub":
        import engine_stub as es

        fails, _ = stub_property_checks(inp["scenario"], _W)
    elif kind == "real-c13":
        fails = [(f["prop"], f["site"], f["kind"], f["detail"]) for f in real_c13_task(inp)["fails"]]
    elif kind == "real-cli13":
        fails = [(f["prop"], f["site"], f["kind"], f["detail"]) for f in real_cli13_task(inp)["fails"]]
    elif kind == "real-fixphase":
        fails = [(f["prop"], f["site"], f["kind"], f["detail"]) for f in real_fixphase_task(inp)["fails"]]
    elif kind == "real-c20":
        fails = [(f["prop"], f["site"], f["kind"], f["detail"]) for f in real_c20_task(inp)["fails"]]
    elif kind == "real-c14":
        fails = [(f["prop"], f["site"], f["kind"], f["detail"]) for f in real_c14_task(inp)["fails"]]
    elif kind == "config-error-probe":
        fails = [(f["prop"], f["site"], f["kind"], f["detail"]) for f in config_error_probe()]
    else:
        print("cannot replay", kind)
        return 2
    hit = [f for f in fails if f[0] == prop and f[1] == d.get("site") and f[2] == d.get("failure")]
    for f in hit[:3]:
        print("REPRODUCED property=%s site=%s kind=%s %s" % (f[0], f[1], f[2], str(f[3])[:500]))
    return 1 if hit else 0
