"""
Correspondence of the Lean tokenizer model with vsg/tokens.py: identical strings through
CPython and the Lean driver, every intermediate pass compared.
"""
import itertools
import multiprocessing
import os
import subprocess
import sys

sys.path.insert(0, os.path.dirname(os.path.abspath(__file__)))
import common  # noqa: E402
from leanio import DRIVER, enc_str  # noqa: E402

ALPHABET = ["a", "e", "x", "B", "1", "0", " ", "\t", '"', "'", "\\", "-", "/", "*", "<", ">", "=", "?", ":", "(", ")", ";", ".", "_", "#"]


def py_passes(s):
    from vsg import tokens

    o = tokens.New(s)
    out = []
    o.combine_whitespace()
    out.append(list(o.lChars))
    o.combine_string_literals()
    out.append(list(o.lChars))
    o.combine_backslash_characters_into_symbols()
    out.append(list(o.lChars))
    o.combine_three_character_symbols()
    out.append(list(o.lChars))
    o.combine_two_character_symbols()
    out.append(list(o.lChars))
    o.combine_characters_into_words()
    out.append(list(o.lChars))
    o.combine_character_literals()
    out.append(list(o.lChars))
    o.split_natural_numbers()
    out.append(list(o.lChars))
    o.split_bit_string_literal_integer_and_base_specifier()
    out.append(list(o.lChars))
    return out


def canon(passes):
    return "|".join(" ".join(("e" if t == "" else enc_str(t)) for t in p) for p in passes)


def check_strings(strings):
    """returns (n, regrouped, list of disagreement dicts, list of property failures)"""
    from vsg import tokens

    p = subprocess.Popen([DRIVER, "lex"], stdin=subprocess.PIPE, stdout=subprocess.PIPE, text=True, encoding="utf-8")
    inp = "\n".join(enc_str(s) for s in strings) + "\n"
    out, _ = p.communicate(inp)
    lines = out.split("\n")
    dis = []
    prop = []
    regrouped = 0
    for s, l in zip(strings, lines):
        try:
            pp = py_passes(s)
            final = tokens.create(s)
        except Exception as e:  # noqa: BLE001
            prop.append({"string": s, "kind": "raised", "detail": repr(e)})
            continue
        if final != pp[-1]:
            prop.append({"string": s, "kind": "harness-pass-replay-differs", "detail": ""})
        if "".join(final) != s:
            prop.append({"string": s, "kind": "notLossless", "detail": repr(final)})
        if any(t == "" for t in final):
            prop.append({"string": s, "kind": "emptyToken", "detail": repr(final)})
        if len(final) != len(s):
            regrouped += 1
        c = canon(pp)
        if c != l:
            # first differing pass
            a = c.split("|")
            b = l.split("|")
            k = next((i for i in range(min(len(a), len(b))) if a[i] != b[i]), -1)
            dis.append({"string": s, "codepoints": [ord(ch) for ch in s], "pass": k + 1, "python": a[k] if k >= 0 else c, "lean": b[k] if k >= 0 and k < len(b) else l})
    return len(strings), regrouped, dis, prop


def _chunk(args):
    length, prefix_idx = args
    strs = []
    first = ALPHABET[prefix_idx]
    if length == 1:
        strs = [first]
    else:
        for rest in itertools.product(ALPHABET, repeat=length - 1):
            strs.append(first + "".join(rest))
    return check_strings(strs)


def exhaustive(max_len, procs=16):
    jobs = [(0, 0)]
    tot, reg, dis, prop = 0, 0, [], []
    n, r, d, p = check_strings([""])
    tot += n
    jobs = [(L, i) for L in range(1, max_len + 1) for i in range(len(ALPHABET))]
    with multiprocessing.Pool(procs) as pool:
        for n, r, d, p in pool.imap_unordered(_chunk, jobs):
            tot += n
            reg += r
            dis.extend(d[:5])
            prop.extend(p[:5])
    return tot, reg, dis, prop


def random_strings(rng, n):
    """structured random lines: VHDL-ish fragments plus Unicode oddities"""
    frags = ["signal", "x\"AB\"", "16#FF#", "1e5", "1.5E-3", "'1'", "'('", "\\ext id\\", "<=", ":=", "=>", "?/=", "?<=", "**", "--", "/*", "*/", "\"str\"\"ing\"", "b\"01\"", "12x\"F\"", "a'b'c", "''''", "e", "E", ".", " ", " ", "٠١", "ß", "İ", "K", "Σ", "\U0001d7ce", "\x1c", "\x85", "d\"", "O\"7\"", "1_000", "1e", "e1", "1ee2", "1.e3", "\t", "  ", "(", ")", ";", ",", "\\", "\"", "'"]
    out = []
    for _ in range(n):
        k = rng.randrange(1, 9)
        parts = []
        for _ in range(k):
            r = rng.random()
            if r < 0.6:
                parts.append(rng.choice(frags))
            elif r < 0.8:
                parts.append("".join(rng.choice(ALPHABET) for _ in range(rng.randrange(1, 6))))
            elif r < 0.9:
                parts.append(chr(rng.choice([rng.randrange(32, 0x250), rng.randrange(0x250, 0x3000), rng.randrange(0x10000, 0x1F000)])))
            else:
                parts.append(" " * rng.randrange(1, 4))
        out.append("".join(parts))
    return out


def _rand_chunk(args):
    import random

    seed, n = args
    return check_strings(random_strings(random.Random(seed), n))


def random_run(total, procs=16):
    per = 2000
    jobs = [("lex/%d/%d" % (common.seed(), i), per) for i in range(max(1, total // per))]
    tot, reg, dis, prop = 0, 0, [], []
    with multiprocessing.Pool(procs) as pool:
        for n, r, d, p in pool.imap_unordered(_rand_chunk, jobs):
            tot += n
            reg += r
            dis.extend(d[:5])
            prop.extend(p[:5])
    return tot, reg, dis, prop


def corpus_lines(limit=None):
    import gen_inputs

    seen = set()
    for f in gen_inputs.corpus_files():
        for l in gen_inputs.read_text(f).split("\n"):
            l = l.rstrip("\r")
            if l not in seen:
                seen.add(l)
    lines = sorted(seen)
    return lines[:limit] if limit else lines


if __name__ == "__main__":
    import time

    t = time.time()
    L = int(sys.argv[1]) if len(sys.argv) > 1 else 3
    print("exhaustive", L, exhaustive(L)[:2], time.time() - t)
    tot, reg, dis, prop = exhaustive(L)
    print(len(dis), dis[:3], prop[:3])
    tot, reg, dis, prop = random_run(20000)
    print("random", tot, reg, len(dis), dis[:3], prop[:3], time.time() - t)
    cl = corpus_lines()
    n, r, d, p = check_strings(cl)
    print("corpus lines", n, r, len(d), d[:2], p[:2], time.time() - t)
