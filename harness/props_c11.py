"""
C11 — code tags suppress exactly the tagged rules on exactly the tagged lines.

Decided by
 (1) the Lean theorems of VsgProofs/Properties/C11.lean over the model VsgModel/Engine/CodeTags.lean
     (tag state machine, set_code_tags, has_code_tag pinned + repaired, add_violation filter) and the
     declarative specification `specSuppressed`;
 (2) correspondence A: random token sequences through the real `vhdlFile.set_code_tags` /
     `parser.item.has_code_tag` / `Rule.add_violation` and through the Lean driver (`driver ct`);
 (3) correspondence B + search on the real rule engine (in-process, same code path as the CLI):
     corpus files with tag comments inserted at random line boundaries against the same files with the
     comments renamed to `-- vsx_…` (ordinary comments):  V(tagged) == {v in V(neutral) : the Lean SPEC
     says none of v's tokens is suppressed for v's rule};  the same filter at every add_violation call
     during `rule_list.fix` and the re-check that follows it (spec re-evaluated on the current token list);
     a file wrapped in a bare `-- vsg_off`: empty report, `--fix` changes nothing but trailing whitespace.

Which `has_code_tag` /repo has (pinned `== ["all"]` or repaired `"all" in`) is detected at run time by
calling the real function; the model variant compared against is chosen accordingly.
"""
import collections
import json
import multiprocessing
import os
import sys
import time
import traceback

sys.path.insert(0, os.path.dirname(os.path.abspath(__file__)))

import common  # noqa: E402
import leanio  # noqa: E402

RULE = (
    "A: one evaluation = one random token sequence (tag comments of every shape, ordinary comments, line breaks, code) "
    "stamped by the real vhdlFile.set_code_tags and by the Lean model, has_code_tag asked for every id on every token, "
    "add_violation asked for random token sets; non-trivial = at least one tag comment changed the state.  "
    "B: one evaluation = one (corpus file, tag placement): tagged vs neutral report, instrumented fix, bare-off wrap; "
    "non-trivial = the tags suppressed at least one violation of the neutral report.  Violations whose own tokens "
    "include an inserted tag comment are left out of the tagged/neutral comparison (a rule about the comment token "
    "itself is not what the property is about) and counted in `excluded_touching_tag_comment`."
)

ASSUMPTIONS = [
    "tokens are abstracted to carriage_return / comment(text) / other: the tag machinery reads nothing else (isinstance tests and get_value())",
    "str.split() and str.isspace() follow the CPython table regenerated on every run (all Unicode white space, not only ASCII); str.startswith / split(':') are prefix test and cut at the first ':'",
    "the reserved name of a bare vsg_off region is 'all' in code and specification alike; an id spelled 'all' in a tag is that name",
    "specification boundary choices follow the wording 'between': a vsg_off and a vsg_disable_next_line comment belong to the region they open, a vsg_on comment to the region it ends; the line break after the tagged line is still tagged",
    "B compares against the neutral spelling `vsx_`: an analysis that reads the text of the tag comment (block comment rules: vsg/block_rule.py code_tag_detected) may offer different violations; such differences are reported separately as `analysisReadsTag` notes, not as failures",
    "during rule_list.fix a failure is what both readings condemn: the violation is kept although a token of it is suppressed by the tags of the INPUT file (or was created between suppressed tokens of the input) and by the file as it stands at that moment; where fixes of untagged rules changed the geometry (blank line inserted between a vsg_disable_next_line comment and its line, a token moved out of a tagged line, a comment turned into a tag) the property does not decide: counted as fix_geometry_* and sampled, not failed",
    "report_filter speaks about the violations offered to add_violation; that tagged and neutral analyses offer the same violations is checked per explored run, not proved",
]

_W = {}


# ------------------------------------------------------------------ wire


def ttok(o):
    from vsg import parser as vparser

    if isinstance(o, vparser.carriage_return):
        return "r"
    if isinstance(o, vparser.comment):
        return "c:" + leanio.enc_str(o.get_value())
    return "o"


class Ct:
    """`driver ct`"""

    def __init__(self):
        self.d = leanio.Driver("ct")

    def stamp(self, wire_toks, ids, scan=False):
        """per token: (tags, pinned bits, fixed bits, spec bits, scan bits)"""
        line = "%s\t%s\t%s" % ("TS" if scan else "T", " ".join(wire_toks), " ".join(leanio.enc_str(i) for i in ids))
        r = self.d.ask(line)
        if not r.startswith("T"):
            raise RuntimeError("driver ct: " + r[:200])
        body = r[2:]
        out = []
        if not body:
            return out
        for cell in body.split(" "):
            tg, pn, fx, sp, sc = cell.split("/")
            tags = [] if tg == "-" else [leanio.dec_str(x) for x in tg.split(",")]
            bits = lambda s: [] if s == "-" else [c == "1" for c in s]  # noqa: E731
            out.append((tags, bits(pn), bits(fx), bits(sp), bits(sc)))
        return out

    def variant(self):
        return self.d.ask("V")[2:]

    def split(self, s):
        r = self.d.ask("S\t" + leanio.enc_str(s))
        body = r[2:]
        return [leanio.dec_str(x) for x in body.split(" ")] if body else []

    def report(self, wire_toks, rid, viols):
        line = "R\t%s\t%s\t%s" % (" ".join(wire_toks), leanio.enc_str(rid), " ".join(",".join(map(str, v)) if v else "-" for v in viols))
        r = self.d.ask(line)
        pn, fx, sp = r[2:].split("/")
        bits = lambda s: [] if s == "-" else [c == "1" for c in s]  # noqa: E731
        return bits(pn), bits(fx), bits(sp)

    def close(self):
        self.d.close()


def detect_variant():
    """which has_code_tag does /repo have?  (the real function is asked)"""
    from vsg import parser as vparser

    t = vparser.item("x")
    t.code_tags = ["all", "x"]
    return "fixed" if t.has_code_tag("y") else "pinned"


# ------------------------------------------------------------------ A: state machine

IDS = ["a", "b", "process_016", "all", "x_1", "é"]
SPACES = [" ", " ", " ", "  ", "\t", " \t ", "\x0b", "\x0c", "\xa0", " ", "\x1f", "　", "\x85"]
REMARKS = ["", "", " : why", ":why", " :", " : a b", ": process_016 : again", " :: x"]
ORDINARY = ["-- hello", "--", "-- vsx_off a", "--vsg_off", "-- VSG_OFF", "--  vsg_off", "-- vsg", "-- vsg_of", "-- vsg_o", "-- vsg_disable_next_lin a", " -- vsg_off", "-- : vsg_off"]
HEADS = ["-- vsg_off", "-- vsg_on", "-- vsg_disable_next_line"]
ODD_HEADS = ["-- vsg_offx", "-- vsg_off_a", "-- vsg_only", "-- vsg_onx", "-- vsg_disable_next_linex", "-- vsg_disable_next_line_2", "-- vsg_off:", "-- vsg_on:a", "-- vsg_off\ta"]


def gen_tag_comment(rng):
    head = rng.choice(HEADS) if rng.random() < 0.85 else rng.choice(ODD_HEADS)
    n = rng.choice([0, 0, 1, 1, 1, 2, 3])
    s = head
    for _ in range(n):
        s += rng.choice(SPACES) + rng.choice(IDS)
    if rng.random() < 0.15:
        s += rng.choice(SPACES)
    s += rng.choice(REMARKS)
    return s


def gen_sequence(rng):
    """list of ('r',) / ('o',) / ('c', text)"""
    seq = []
    nlines = rng.randrange(1, 14)
    wild = rng.random() < 0.25
    for _ in range(nlines):
        r = rng.random()
        if r < 0.5:
            for _ in range(rng.randrange(0, 3)):
                seq.append(("o",))
            seq.append(("c", gen_tag_comment(rng)))
        elif r < 0.6:
            for _ in range(rng.randrange(0, 3)):
                seq.append(("o",))
            seq.append(("c", rng.choice(ORDINARY)))
        elif r < 0.9:
            for _ in range(rng.randrange(1, 4)):
                seq.append(("o",))
        if wild and rng.random() < 0.3:
            # not a shape the tokenizer produces: comment not followed by a line break
            if rng.random() < 0.5:
                seq.append(("c", gen_tag_comment(rng)))
            continue
        seq.append(("r",))
    if rng.random() < 0.3 and seq and seq[-1] == ("r",):
        seq.pop()
    return seq


def real_tokens(seq):
    from vsg import parser as vparser

    out = []
    for i, t in enumerate(seq):
        if t[0] == "r":
            out.append(vparser.carriage_return())
        elif t[0] == "c":
            out.append(vparser.comment(t[1]))
        else:
            out.append(vparser.item("x") if i % 3 else vparser.whitespace("  "))
    return out


def a_chunk(job):
    """one worker chunk of correspondence A"""
    import vsgrun  # noqa: F401  (imports vsg)
    from vsg import rule as vrule
    from vsg import violation as vviolation
    from vsg.vhdlFile.extract import tokens as vtokens

    tag, n = job
    rng = common.rng("c11A/" + tag)
    variant = detect_variant()
    col = 1 if variant == "pinned" else 2
    ct = Ct()
    out = {"n": 0, "nontrivial": 0, "tokens": 0, "corr": [], "defect": [], "specdiff": [], "splits": 0, "reports": 0, "samples": []}
    VF = sys.modules["vsg.vhdlFile.vhdlFile"]
    try:
        for k in range(n):
            seq = gen_sequence(rng)
            toks = real_tokens(seq)
            VF.set_code_tags(toks)
            wire = [ttok(o) for o in toks]
            ids = rng.sample(IDS, 3) + ["zz"]
            rows = ct.stamp(wire, ids, scan=True)
            out["n"] += 1
            out["tokens"] += len(toks)
            if any(o.code_tags for o in toks):
                out["nontrivial"] += 1
            desc = {"seq": [list(t) for t in seq], "ids": ids}
            if len(rows) != len(toks):
                out["corr"].append({"what": "length", "input": desc})
                continue
            for i, (o, row) in enumerate(zip(toks, rows)):
                if list(o.code_tags) != row[0]:
                    out["corr"].append({"what": "stamp", "token": i, "real": list(o.code_tags), "model": row[0], "input": desc})
                    break
                real = [bool(o.has_code_tag(x)) for x in ids]
                if real != row[col]:
                    out["corr"].append({"what": "has_code_tag(%s)" % variant, "token": i, "real": real, "model": row[col], "tags": row[0], "input": desc})
                    break
                if row[3] != row[4] or row[2] != row[3]:
                    # theorems stamp_spec / specAll_spec executed: cannot differ unless the build is stale
                    out["specdiff"].append({"token": i, "fixed": row[2], "spec": row[3], "scan": row[4], "input": desc})
                    break
                if real != row[3]:
                    # the real code disagrees with the SPECIFICATION (and agrees with its model): property failure
                    bad = [x for x, a, b in zip(ids, real, row[3]) if a != b]
                    out["defect"].append({"token": i, "ids": bad, "tags": row[0], "real": real, "spec": row[3], "input": desc, "size": len(seq)})
                    break
            # add_violation on random token sets
            if toks and k % 4 == 0:
                oRule = vrule.Rule()
                rid = rng.choice(ids)
                oRule.unique_id = rid
                viols = []
                for _ in range(rng.randrange(1, 6)):
                    a = rng.randrange(0, len(toks))
                    b = min(len(toks), a + rng.randrange(0, 4))
                    viols.append(list(range(a, b)))
                objs = []
                for v in viols:
                    ov = vviolation.New(1, vtokens.New(v[0] if v else 0, 1, [toks[i] for i in v]), "s")
                    objs.append(ov)
                    oRule.add_violation(ov)
                kept_real = [any(ov is x for x in oRule.violations) for ov in objs]
                pn, fx, sp = ct.report(wire, rid, viols)
                out["reports"] += 1
                if kept_real != (pn if variant == "pinned" else fx):
                    out["corr"].append({"what": "add_violation(%s)" % variant, "real": kept_real, "model": pn if variant == "pinned" else fx, "viols": viols, "rule": rid, "input": desc})
                if fx != sp:
                    out["specdiff"].append({"what": "report_filter", "fixed": fx, "spec": sp, "input": desc})
            # str.split()
            if k % 8 == 0:
                s = "".join(rng.choice(SPACES + list("ab:-_.") + ["vsg", "é", "​", " "]) for _ in range(rng.randrange(0, 12)))
                out["splits"] += 1
                if ct.split(s) != s.split():
                    out["corr"].append({"what": "str.split", "s": s, "real": s.split(), "model": ct.split(s)})
            if k < 2:
                out["samples"].append({"seq": ["".join(t[1:]) if t[0] == "c" else t[0] for t in seq][:12], "stamped": [r[0] for r in rows][:12]})
    finally:
        ct.close()
    return out


# ------------------------------------------------------------------ B: the real engine


def _binit():
    import vsgrun

    _W["cfg"] = vsgrun.make_config()
    _W["variant"] = detect_variant()
    _W["ct"] = Ct()


def locate(lAll, toks, start, posdict):
    """positions in lAllObjects of the tokens of a violation: the tokens of interest are the slice starting at
    oTokens.iStartIndex (modulo a leading beginning_of_file pseudo token); identity search is the fall-back
    (a fix may put ONE token object at several places of the list, e.g. instantiation_033's `component`)"""
    from vsg import parser as vparser

    out = []
    j = 0
    for t in toks:
        if isinstance(t, vparser.beginning_of_file):
            out.append(-1)
            continue
        k = start + j if isinstance(start, int) else -1
        if 0 <= k < len(lAll) and lAll[k] is t:
            out.append(k)
        else:
            out.append(posdict.get(id(t), -1))
        j += 1
    return out


class Recorder:
    """wraps Rule.add_violation (class attribute, restored afterwards): every violation OFFERED is recorded
    with the positions of its tokens in lAllObjects (static=True: the list does not change, as in check_rules)
    and whether it was kept"""

    def __init__(self, oFile, on_offer=None, static=True):
        self.oFile = oFile
        self.offered = []
        self.on_offer = on_offer
        self.static = static
        self._index = None

    def positions(self, v):
        if not self.static:
            return None
        if self._index is None:
            self._index = {id(o): i for i, o in enumerate(self.oFile.lAllObjects)}
        try:
            toks = v.oTokens.get_tokens()
            start = getattr(v.oTokens, "iStartIndex", None)
        except Exception:  # noqa: BLE001
            return None
        return locate(self.oFile.lAllObjects, toks, start, self._index)

    def __enter__(self):
        from vsg import rule as vrule

        self.real = vrule.Rule.add_violation
        rec = self

        def add_violation(oRule, violation):
            pos = rec.positions(violation)
            n0 = len(oRule.violations)
            rec.real(oRule, violation)
            kept = len(oRule.violations) > n0
            entry = {"rule": oRule.unique_id, "line": violation.get_line_number(), "sol": str(violation.sSolution), "pos": pos, "kept": kept}
            rec.offered.append(entry)
            if rec.on_offer:
                rec.on_offer(oRule, violation, entry)

        vrule.Rule.add_violation = add_violation
        return self

    def __exit__(self, *a):
        from vsg import rule as vrule

        vrule.Rule.add_violation = self.real


def check_recorded(lines, on_offer=None):
    """parse + check_rules(all phases) with the recorder.  Returns (oFile, rule_list, offered)"""
    import vsgrun

    cla, oc = _W["cfg"]
    o = vsgrun.parse(lines, cla, oc)
    rl = vsgrun.new_rule_list(o, oc)
    with Recorder(o, on_offer) as rec:
        rl.check_rules(bAllPhases=True)
    return o, rl, rec.offered


TAG_SHAPES = ["region", "region", "nested", "nextline", "nextline", "chain", "soup", "unmatched", "bare_then_id"]


def indent_of(line):
    return line[: len(line) - len(line.lstrip())]


def gen_placement(rng, lines, fired_by_line, fired_ids, all_ids):
    """list of (line index to insert BEFORE, comment text without indentation).  Ids are drawn from the rules
    that fire in the file (so that suppression is observable) and sometimes from rules that do not."""
    n = len(lines)
    hot = sorted(fired_by_line)  # 1-based line numbers with violations

    def pick_ids(k=None, around=None):
        pool = list(fired_ids)
        if around is not None and fired_by_line.get(around):
            pool = sorted(fired_by_line[around]) * 3 + pool
        k = k or rng.choice([1, 1, 2, 3])
        ids = []
        for _ in range(k):
            ids.append(rng.choice(pool) if pool and rng.random() < 0.9 else rng.choice(all_ids))
        return ids

    def remark():
        return rng.choice(["", "", "", " : because", ": x", " : " + (rng.choice(fired_ids) if fired_ids else "y")])

    def hot_line():
        if hot and rng.random() < 0.8:
            return rng.choice(hot) - 1
        return rng.randrange(0, n)

    shape = rng.choice(TAG_SHAPES)
    out = []
    if shape == "region":
        a = hot_line()
        b = rng.randrange(a, n + 1)
        ids = pick_ids(around=a + 1) if rng.random() < 0.75 else []
        out.append((a, "-- vsg_off" + "".join(" " + i for i in ids) + remark()))
        r = rng.random()
        if r < 0.5:
            on_ids = ids
        elif r < 0.75:
            on_ids = []
        else:
            on_ids = ids[:1] if ids else pick_ids(1)
        if rng.random() < 0.9:
            out.append((b, "-- vsg_on" + "".join(" " + i for i in on_ids) + remark()))
    elif shape in ("nested", "bare_then_id"):
        a = hot_line()
        b = rng.randrange(a, n + 1)
        c = rng.randrange(b, n + 1)
        out.append((a, "-- vsg_off" + remark()))
        if shape == "nested" and rng.random() < 0.5:
            out.append((b, "-- vsg_disable_next_line" + "".join(" " + i for i in pick_ids(around=b + 1))))
        else:
            out.append((b, "-- vsg_off" + "".join(" " + i for i in pick_ids(around=b + 1)) + remark()))
        if rng.random() < 0.6:
            out.append((c, rng.choice(["-- vsg_on", "-- vsg_on " + pick_ids(1)[0]])))
    elif shape == "nextline":
        for _ in range(rng.choice([1, 1, 2, 3])):
            a = hot_line()
            out.append((a, "-- vsg_disable_next_line" + "".join(" " + i for i in pick_ids(around=a + 1)) + remark()))
    elif shape == "chain":
        a = hot_line()
        for _ in range(rng.choice([2, 2, 3])):
            out.append((a, "-- vsg_disable_next_line" + "".join(" " + i for i in pick_ids(1, around=a + 1))))
    elif shape == "unmatched":
        a = hot_line()
        out.append((a, "-- vsg_on" + "".join(" " + i for i in (pick_ids() if rng.random() < 0.5 else []))))
        b = rng.randrange(0, n + 1)
        # (`--vsg_off` is left to correspondence A: a comment rule's fix turns it into `-- vsg_off`, a real tag)
        out.append((b, rng.choice(["-- vsg_offx", "-- vsg_off_all", "-- vsg_only " + pick_ids(1)[0], "-- VSG_OFF"])))
    else:
        for _ in range(rng.randrange(2, 7)):
            a = hot_line() if rng.random() < 0.5 else rng.randrange(0, n + 1)
            kind = rng.choice(["-- vsg_off", "-- vsg_on", "-- vsg_disable_next_line"])
            ids = pick_ids(around=a + 1) if rng.random() < 0.7 else []
            out.append((a, kind + "".join(" " + i for i in ids) + remark()))
    return shape, out


def apply_placement(lines, placement, rng_indent, spell="vsg_"):
    """returns (new lines, set of 0-based indices of the inserted lines).  Comments inserted before the same
    line keep their order."""
    by = collections.defaultdict(list)
    for k, (a, text) in enumerate(placement):
        by[a].append((k, text))
    out = []
    ins = []
    for i in range(len(lines) + 1):
        for k, text in by.get(i, []):
            ind = indent_of(lines[i]) if i < len(lines) else ""
            if rng_indent[k] is not None:
                ind = " " * rng_indent[k]
            ins.append(len(out))
            out.append(ind + text.replace("vsg_", spell, 1) if text.startswith(("-- vsg_", "--vsg_")) else ind + text.replace("VSG_", spell.upper(), 1))
        if i < len(lines):
            out.append(lines[i])
    return out, ins


def vkey(e):
    return (e["rule"], e["line"], e["sol"], tuple(e["pos"] or ()))


def compare_tagged_neutral(tagged_lines, neutral_lines, ins_lines):
    """the core of B.  Returns dict with mismatches, counts; raises on parse problems"""
    ct = _W["ct"]
    variant = _W["variant"]
    o_t, rl_t, off_t = check_recorded(tagged_lines)
    o_n, rl_n, off_n = check_recorded(neutral_lines)
    res = {"corr": [], "mism": [], "excluded": 0, "suppressed": 0, "offered": len(off_n), "kept_t": sum(1 for e in off_t if e["kept"]), "notes": []}
    if len(o_t.lAllObjects) != len(o_n.lAllObjects) or any(type(a) is not type(b) for a, b in zip(o_t.lAllObjects, o_n.lAllObjects)):
        res["notes"].append("tagged and neutral token lists differ in shape")
        res["shape"] = True
        return res
    # positions of the inserted comment tokens
    tagpos = set()
    ln = 0
    from vsg import parser as vparser

    insset = set(ins_lines)
    for i, o in enumerate(o_t.lAllObjects):
        if isinstance(o, vparser.comment) and ln in insset:
            tagpos.add(i)
        if isinstance(o, vparser.carriage_return):
            ln += 1
    ids = sorted({e["rule"] for e in off_n} | {e["rule"] for e in off_t})
    wire = [ttok(o) for o in o_t.lAllObjects]
    rows = ct.stamp(wire, ids)
    col = 1 if variant == "pinned" else 2
    idx = {r: k for k, r in enumerate(ids)}
    # correspondence on the real token list
    for i, (o, row) in enumerate(zip(o_t.lAllObjects, rows)):
        if list(o.code_tags) != row[0]:
            res["corr"].append({"what": "stamp on parsed file", "token": i, "real": list(o.code_tags), "model": row[0]})
            break
    for o in o_n.lAllObjects:
        if o.code_tags:
            res["notes"].append("neutral file carries tags")
            break

    def spec_supp(e):
        k = idx[e["rule"]]
        return any(0 <= p < len(rows) and rows[p][3][k] for p in (e["pos"] or ()))

    def model_supp(e):
        k = idx[e["rule"]]
        return any(0 <= p < len(rows) and rows[p][col][k] for p in (e["pos"] or ()))

    def touches(e):
        return any(p in tagpos for p in (e["pos"] or ()))

    unknown = sum(1 for e in off_n + off_t if e["pos"] is None or any(p < 0 for p in e["pos"]))
    res["unlocated_tokens"] = unknown
    exp = collections.Counter()
    for e in off_n:
        if not e["kept"]:
            res["notes"].append("neutral run dropped a violation")
        if touches(e):
            res["excluded"] += 1
            continue
        if spec_supp(e):
            res["suppressed"] += 1
            continue
        exp[vkey(e)] += 1
    act = collections.Counter()
    offered_t = collections.Counter()
    engine_bad = []
    for e in off_t:
        # engine level, EVERY offered violation (also those about the tag comment itself):
        # kept <-> model of the variant of /repo, and kept <-> specification
        if e["kept"] == model_supp(e):
            res["corr"].append({"what": "add_violation vs model(%s)" % variant, "violation": vkey(e), "kept": e["kept"]})
        if e["kept"] == spec_supp(e):
            engine_bad.append(e)
        if touches(e):
            res["excluded"] += 1
            continue
        offered_t[vkey(e)] += 1
        if e["kept"]:
            act[vkey(e)] += 1
    offered_n = collections.Counter(vkey(e) for e in off_n if not touches(e))
    def site_of(k):
        """where the failure lies: does the engine agree with the tags the tokens really carry?"""
        e = next((x for x in off_t if vkey(x) == k), None)
        if e is None:
            return k[0]
        real_tagged = any(0 <= p < len(o_t.lAllObjects) and o_t.lAllObjects[p].has_code_tag(e["rule"]) for p in (e["pos"] or ()))
        if e["kept"] == (not real_tagged):
            return "vhdlFile.set_code_tags"  # filter consistent with the stamps: the stamps are not the specification
        return "Rule.add_violation"  # the filter does not follow the stamps

    for e in engine_bad:
        res["mism"].append({"dir": "reportedInsideTag" if e["kept"] else "suppressedOutsideTag", "violation": list(vkey(e)), "site": site_of(vkey(e)), "level": "filter"})
    if exp != act:
        for k in (act - exp):
            # reported although the property says suppressed (or not in the neutral report at all)
            why = "analysisReadsTag" if offered_n[k] < offered_t[k] else "reportedInsideTag"
            res["mism"].append({"dir": why, "violation": list(k), "site": site_of(k)})
        for k in (exp - act):
            why = "analysisReadsTag" if offered_t[k] < offered_n[k] else "suppressedOutsideTag"
            res["mism"].append({"dir": why, "violation": list(k), "site": site_of(k)})
    # the real filter equals the model of the pinned variant on this file (no correspondence break) and the model of
    # the repaired variant equals the specification (theorem stamp_spec): every difference between the real report
    # and the specification is then the `== ["all"]` test
    res["explained_by_pinned"] = bool(res["mism"]) and variant == "pinned" and not res["corr"]
    return res


def fix_recorded(lines):
    """rule_list.fix + the re-check the CLI performs.  Every violation offered to add_violation is judged twice:
      * against the SPEC on the INPUT file x (tokens that exist in x keep their position in x): a violation that
        is kept although one of its tokens is suppressed in x is a fix on a tagged line  -> `inside`
      * against the SPEC evaluated on the token list of that moment (what a fresh parse of the file as it stands
        would stamp): kept although suppressed there -> `unstamped` (tokens created by a fix inside a region carry
        no tags); dropped although not suppressed there -> `stale` (an earlier fix moved the tagged line away
        from its tag comment; the stamps of parse time are still used)
      A FAILURE is only what both readings condemn (`inside`: suppressed in x — or created between suppressed
      tokens of x — and suppressed in the file as it stands, yet kept).  Where earlier fixes of untagged rules
      changed the geometry (`stale`, `unstamped`, `moved_out`) the property, which speaks about the tags of the
      input, does not decide; these are counted and sampled in the evidence.
    Returns dict"""
    import vsgrun

    ct = _W["ct"]
    variant = _W["variant"]
    col = 1 if variant == "pinned" else 2
    cla, oc = _W["cfg"]
    o = vsgrun.parse(lines, cla, oc)
    rl = vsgrun.new_rule_list(o, oc)
    orig = list(o.lAllObjects)  # keeps the tokens of x alive (ids stay unique)
    orig_pos = {id(t): i for i, t in enumerate(orig)}
    orig_wire = [ttok(t) for t in orig]
    orig_rows = {}
    cache = {"key": None, "rows": {}, "pos": None}
    out = {"offers": 0, "inside": [], "moved_out": [], "unstamped": [], "stale": [], "recomputed": 0, "exc": None, "unlocated": 0, "in_check": False}

    def rows_now(rid):
        """verdicts for rule `rid` on the token list of this moment (one driver request per (token list, rule)
        pair that is actually offered a violation)"""
        l = o.lAllObjects
        key = tuple(map(id, l))
        if cache["key"] != key:
            cache["key"] = key
            cache["rows"] = {}
            cache["wire"] = [ttok(t) for t in l]
            cache["pos"] = {id(t): i for i, t in enumerate(l)}
            out["recomputed"] += 1
        if rid not in cache["rows"]:
            cache["rows"][rid] = ct.stamp(cache["wire"], [rid])
        return cache["rows"][rid], cache["pos"]

    def on_offer(oRule, violation, entry):
        rid = oRule.unique_id
        rows, pos = rows_now(rid)
        if rid not in orig_rows:
            orig_rows[rid] = ct.stamp(orig_wire, [rid])
        r0 = orig_rows[rid]
        out["offers"] += 1
        try:
            toks = violation.oTokens.get_tokens()
        except Exception:  # noqa: BLE001
            return
        ps = locate(o.lAllObjects, toks, getattr(violation.oTokens, "iStartIndex", None), pos)
        if any(p < 0 for p in ps):
            out["unlocated"] += 1
        cur_spec = any(p >= 0 and rows[p][3][0] for p in ps)
        cur_model = any(p >= 0 and rows[p][col][0] for p in ps)
        orig_spec = any(id(t) in orig_pos and r0[orig_pos[id(t)]][3][0] for t in toks)
        orig_model = any(id(t) in orig_pos and r0[orig_pos[id(t)]][col][0] for t in toks)
        kept = entry["kept"]
        enclosed = False
        if kept and not orig_spec and cur_spec:
            # tokens created by an earlier fix: inside the tagged lines of x iff the nearest tokens of x on both
            # sides are suppressed in x
            l = o.lAllObjects
            for t, p in zip(toks, ps):
                if p < 0 or id(t) in orig_pos:
                    continue
                a = p - 1
                while a >= 0 and id(l[a]) not in orig_pos:
                    a -= 1
                b = p + 1
                while b < len(l) and id(l[b]) not in orig_pos:
                    b += 1
                if a >= 0 and b < len(l) and r0[orig_pos[id(l[a])]][3][0] and r0[orig_pos[id(l[b])]][3][0]:
                    enclosed = True
        rec = {"rule": rid, "line": entry["line"], "kept": kept, "real_tagged": any(t.has_code_tag(rid) for t in toks), "spec_on_input": orig_spec, "new_token_enclosed_by_suppressed_tokens_of_input": enclosed, "spec_on_current": cur_spec, "model_on_input": orig_model, "model_on_current": cur_model, "tags_on_tokens": [list(t.code_tags) for t in toks][:6], "fresh_stamp_of_current_list": [rows[p][0] if p >= 0 else None for p in ps][:6], "phase": "recheck" if out["in_check"] else "fix"}
        if kept and (orig_spec or enclosed) and cur_spec:
            out["inside"].append(rec)  # suppressed by the tags of the input AND by the file as it stands, yet kept
        elif kept and orig_spec:
            out["moved_out"].append(rec)  # a token of a tagged line of x was moved out of it by an earlier fix
        elif kept and cur_spec:
            out["unstamped"].append(rec)
        elif not kept and not cur_spec:
            out["stale"].append(rec)

    with Recorder(o, on_offer, static=False):
        try:
            rl.fix(7, [], None)
            out["in_check"] = True
            rl.clear_violations()
            rl.check_rules(bAllPhases=True)
        except Exception as e:  # noqa: BLE001 - crashes are C19's business
            out["exc"] = "%s: %s" % (type(e).__name__, e)
    out["lines"] = o.get_lines()[1:]
    out["had"] = rl.had_violations
    return out


def b_job(job):
    try:
        return b_job_inner(job)
    except Exception:  # noqa: BLE001
        return {"job": job, "status": "harness", "err": traceback.format_exc()[-1200:]}


def b_job_inner(job):
    import gen_inputs
    import vsgrun
    from vsg import exceptions as vexc

    rng = common.rng("c11B/%s/%s" % (job["path"], job["k"]))
    text = job.get("text") or gen_inputs.read_text(job["path"])
    lines = vsgrun.text_to_lines(text)
    out = {"job": {k: v for k, v in job.items() if k != "text"}, "status": "ok", "fails": [], "corr": [], "notes": [], "stats": collections.Counter()}
    if not lines or len(lines) > job.get("max_lines", 1500):
        out["status"] = "skipped"
        return out
    try:
        o0, rl0, off0 = check_recorded(lines)
    except vexc.ClassifyError:
        out["status"] = "rejected"
        return out
    except Exception as e:  # noqa: BLE001
        out["status"] = "crash:" + type(e).__name__
        return out
    if not off0:
        out["status"] = "noviolations"
        return out
    fired_by_line = collections.defaultdict(set)
    for e in off0:
        fired_by_line[e["line"]].add(e["rule"])
    fired_ids = sorted({e["rule"] for e in off0})
    all_ids = sorted(r.unique_id for r in rl0.rules)

    if "placement" in job:
        shape, placement, indents = job["shape"], [tuple(p) for p in job["placement"]], job["indents"]
    else:
        shape, placement = gen_placement(rng, lines, fired_by_line, fired_ids, all_ids)
        indents = [None if rng.random() < 0.8 else rng.randrange(0, 8) for _ in placement]
    out["shape"] = shape

    def run_cmp(pl, ind):
        tl, ins = apply_placement(lines, pl, ind, "vsg_")
        nl, _ = apply_placement(lines, pl, ind, "vsx_")
        return tl, nl, ins, compare_tagged_neutral(tl, nl, ins)

    try:
        tl, nl, ins, r = run_cmp(placement, indents)
    except vexc.ClassifyError:
        out["status"] = "rejected-tagged"
        return out
    out["stats"]["offered"] += r["offered"]
    out["stats"]["suppressed"] += r["suppressed"]
    out["stats"]["excluded_touching_tag_comment"] += r["excluded"]
    out["stats"]["unlocated_tokens"] += r.get("unlocated_tokens", 0)
    out["notes"] += r["notes"]
    for c in r["corr"]:
        out["corr"].append(dict(c, input={"path": job["path"], "placement": placement, "indents": indents}))
    real = [m for m in r["mism"] if m["dir"] != "analysisReadsTag"]
    out["stats"]["analysisReadsTag"] += len(r["mism"]) - len(real)
    if len(r["mism"]) - len(real):
        out["notes"].append("analysisReadsTag: " + json.dumps([m for m in r["mism"] if m["dir"] == "analysisReadsTag"][:2]))
    if real:
        # minimise the placement greedily: drop comments while some non-analysis mismatch remains
        pl, ind = list(placement), list(indents)
        changed = True
        last = r
        while changed and len(pl) > 1:
            changed = False
            for i in range(len(pl)):
                p2, i2 = pl[:i] + pl[i + 1 :], ind[:i] + ind[i + 1 :]
                try:
                    _, _, _, r2 = run_cmp(p2, i2)
                except Exception:  # noqa: BLE001
                    continue
                if [m for m in r2["mism"] if m["dir"] != "analysisReadsTag"]:
                    pl, ind, last, changed = p2, i2, r2, True
                    break
        tl2, _ = apply_placement(lines, pl, ind, "vsg_")
        mm = [m for m in last["mism"] if m["dir"] != "analysisReadsTag"]
        if last["explained_by_pinned"]:
            site, kind = "parser.item.has_code_tag", "tagAllLost"
        else:
            site, kind = mm[0]["site"], mm[0]["dir"]
        out["fails"].append(
            {
                "site": site,
                "kind": kind,
                "detail": "%s: %d violation(s) differ from the specification, e.g. %s line %s (%s); tags: %s" % (os.path.basename(job["path"]), len(mm), mm[0]["violation"][0], mm[0]["violation"][1], mm[0]["dir"], [t for _, t in pl]),
                "replay": {"mode": "B", "path": job["path"], "text": "\n".join(tl2) + "\n", "shape": shape, "placement": pl, "indents": ind, "mismatches": mm[:6]},
                "size": len(tl2),
            }
        )
    if r["suppressed"]:
        out["stats"]["nontrivial"] += 1

    # ---- fix on the tagged file: every offer judged by the spec on the current token list
    if job.get("fix", True) and len(lines) <= job.get("max_fix_lines", 1500):
        f = fix_recorded(tl)
        out["stats"]["fix_offers"] += f["offers"]
        out["stats"]["fix_spec_recomputations"] += f["recomputed"]
        out["stats"]["fix_unlocated"] += f["unlocated"]
        if f["exc"]:
            out["notes"].append("fix raised " + f["exc"][:120])
        st = f["inside"]
        if st:
            out["stats"]["fix_inside"] += len(st)
            pinned_expl = _W["variant"] == "pinned" and all(not s["model_on_input"] for s in st)
            st.sort(key=lambda x: x["new_token_enclosed_by_suppressed_tokens_of_input"] and not x["spec_on_input"])
            newtok = st[0]["new_token_enclosed_by_suppressed_tokens_of_input"] and not st[0]["spec_on_input"]
            if pinned_expl:
                site, kind = "parser.item.has_code_tag", "tagAllLost"
            elif newtok:
                # every token of the violation was created by an earlier fix (of an untagged rule) between tokens
                # that are tagged for this rule: the new tokens carry no tags and the tagged rule acts on them
                site, kind = "Rule.fix", "newTokenNotStamped"
            else:
                site, kind = ("Rule.add_violation" if st[0]["real_tagged"] else "vhdlFile.set_code_tags"), "fixedInsideTag"
            out["fails"].append(
                {
                    "site": site,
                    "kind": kind,
                    "detail": "%s: during --fix %d offered violation(s) kept (and, in the fix phase, fixed) although suppressed by the tags of the input file and of the file as it stands, e.g. %s" % (os.path.basename(job["path"]), len(st), json.dumps(st[0])[:400]),
                    "replay": {"mode": "Bfix", "class": "inside", "path": job["path"], "text": "\n".join(tl) + "\n", "shape": shape, "placement": placement, "indents": indents, "offers": st[:5]},
                    "size": len(tl),
                }
            )
        # not failures of C11 (the property speaks about the tags of the INPUT file): fixes that change what a
        # fresh parse of the file would stamp.  Counted and sampled in the evidence.
        for cls, what in (
            ("stale", "tagged line separated from its next-line comment by an earlier fix: dropped with the stamps of parse time, a fresh parse would not suppress"),
            ("unstamped", "kept with the stamps of parse time, a fresh parse of the file as it stands would suppress"),
            ("moved_out", "a token of a tagged line was moved out of it by an earlier fix of an untagged rule (and took over the tags of its new neighbour): kept"),
        ):
            if f[cls]:
                out["stats"]["fix_geometry_" + cls] += len(f[cls])
                out["notes"].append("fix changes tag geometry (%s): %s" % (cls, what))
                out.setdefault("geometry_samples", []).append({"file": os.path.basename(job["path"]), "class": cls, "tags": [t for _, t in placement], "offer": {k: f[cls][0][k] for k in ("rule", "line", "kept", "tags_on_tokens", "fresh_stamp_of_current_list", "phase")}})

    # ---- whole file wrapped in a bare vsg_off
    own_tags = any(t.code_tags for t in o0.lAllObjects)
    if own_tags:
        out["stats"]["files_with_own_tags"] += 1
    if job.get("wrap", True) and not own_tags:
        for wl in (["-- vsg_off"] + lines, ["-- vsg_off : whole file"] + lines + ["-- vsg_on"]):
            o_w, rl_w, off_w = check_recorded(wl)
            kept = [e for e in off_w if e["kept"]]
            out["stats"]["wrap_offered"] += len(off_w)
            if kept:
                out["fails"].append(
                    {
                        "site": kept[0]["rule"],
                        "kind": "reportedUnderBareOff",
                        "detail": "%s wrapped in a bare -- vsg_off still reports %d violation(s), e.g. %s line %s: %s (token positions %s)" % (os.path.basename(job["path"]), len(kept), kept[0]["rule"], kept[0]["line"], kept[0]["sol"][:80], (kept[0]["pos"] or [])[:6]),
                        "replay": {"mode": "wrap", "path": job["path"], "text": "\n".join(wl) + "\n"},
                        "size": len(wl),
                    }
                )
            fixed_lines, had, _, _ = vsgrun.plain_fix(wl, *_W["cfg"])
            if [l.rstrip() for l in fixed_lines] != [l.rstrip() for l in wl]:
                d = next((i for i, (a, b) in enumerate(zip(fixed_lines, wl)) if a.rstrip() != b.rstrip()), min(len(fixed_lines), len(wl)))
                out["fails"].append(
                    {
                        "site": "rule_list.fix",
                        "kind": "changedUnderBareOff",
                        "detail": "%s wrapped in a bare -- vsg_off is changed by --fix beyond trailing whitespace: first difference at line %d: %r -> %r (%d -> %d lines)" % (os.path.basename(job["path"]), d + 1, wl[d : d + 1], fixed_lines[d : d + 1], len(wl), len(fixed_lines)),
                        "replay": {"mode": "wrap", "path": job["path"], "text": "\n".join(wl) + "\n"},
                        "size": len(wl),
                    }
                )
            elif fixed_lines != wl:
                out["stats"]["wrap_trailing_ws_only"] += 1
    out["stats"] = dict(out["stats"])
    return out


# ------------------------------------------------------------------ run


def run(prop, tier):
    res = common.Result(prop, tier)
    ok_model, tables, nobl, ndis, thms = common.lean_phase(res, prop)
    cmd = "cd lean && lake build VsgModel driver VsgProofs.Properties.%s && lake env lean <audit file with #print axioms>" % prop
    if not ok_model:
        return res.finish(max(nobl, 1), 0, cmd, thms)
    import gen_inputs
    import vsgrun  # noqa: F401

    variant = detect_variant()
    ct = Ct()
    model_variant = ct.variant()
    ct.close()
    if model_variant != variant:
        res.proof_break(
            "model switch Vsgm.CT.hasCodeTag (theorems stamp_spec_repo, report_filter_repo)",
            "the model says parser.item.has_code_tag is the %s variant, the real function under /repo behaves as the %s variant; "
            "set `def hasCodeTag : HasTagImpl := hasCodeTag%s` in lean/VsgModel/Engine/CodeTags.lean" % (model_variant, variant, variant.capitalize()),
        )
    quick = tier == "quick"
    procs = min(16, os.cpu_count() or 4)

    # ---- A
    n_seq = 6000 if quick else 400000
    chunks = 32 if quick else 256
    a_jobs = [("%d" % i, n_seq // chunks) for i in range(chunks)]
    t0 = time.time()
    with multiprocessing.Pool(procs) as pool:
        a_res = list(pool.imap_unordered(a_chunk, a_jobs))
    a_wall = time.time() - t0
    A = {"n": 0, "nontrivial": 0, "tokens": 0, "splits": 0, "reports": 0}
    a_defects = []
    for r in a_res:
        for k in A:
            A[k] += r[k]
        for c in r["corr"][:3]:
            res.proof_break("correspondence A: %s" % c["what"], c)
        for c in r["specdiff"][:3]:
            res.proof_break("executed theorem stamp_spec / specAll_spec / report_filter disagrees with itself (stale build?)", c)
        a_defects += r["defect"]
    samples = []
    for r in a_res[:2]:
        samples += r["samples"][:2]
    if a_defects:
        a_defects.sort(key=lambda d: d["size"])
        d = a_defects[0]
        # with the pinned has_code_tag every such difference is, by construction of the comparison above
        # (real == pinned model, fixed model == spec), the `== ["all"]` test
        kind = "tagAllLost" if variant == "pinned" and "all" in d["tags"] and d["tags"] != ["all"] else "stampNotSpec"
        a_fail = (
            "parser.item.has_code_tag",
            kind,
            "token %d carries %r: has_code_tag%r = %r, the specification says %r (%d of %d random sequences differ)" % (d["token"], d["tags"], tuple(d["ids"]), [a for x, a in zip(d["input"]["ids"], d["real"]) if x in d["ids"]], [b for x, b in zip(d["input"]["ids"], d["spec"]) if x in d["ids"]], len(a_defects), A["n"]),
            {"mode": "A", "seq": d["input"]["seq"], "ids": d["input"]["ids"]},
        )
    else:
        a_fail = None

    # ---- B
    files = [p for p in gen_inputs.corpus_files()]
    rng = common.rng("c11B/files")
    rng.shuffle(files)
    n_files, per_file = (160, 4) if quick else (800, 10)
    b_jobs = []
    for p in files[:n_files]:
        for k in range(per_file):
            b_jobs.append({"path": p, "k": k, "fix": k < (2 if quick else 6), "wrap": k == 0, "max_lines": 400 if quick else 1500, "max_fix_lines": 250 if quick else 1500})
    # big files first (better packing of the pool)
    size = {}
    for p in files[:n_files]:
        try:
            size[p] = os.path.getsize(p)
        except OSError:
            size[p] = 0
    b_jobs.sort(key=lambda j: -size[j["path"]])
    t0 = time.time()
    with multiprocessing.Pool(procs, initializer=_binit) as pool:
        b_res = list(pool.imap_unordered(b_job, b_jobs, chunksize=1))
    b_wall = time.time() - t0
    status = collections.Counter(r["status"] for r in b_res)
    stats = collections.Counter()
    shapes = collections.Counter()
    fails = []
    notes = collections.Counter()
    geometry = []
    for r in b_res:
        if r["status"] == "harness":
            res.notes.append("harness error: " + r["err"][-300:])
            continue
        for k, v in (r.get("stats") or {}).items():
            stats[k] += v
        if r.get("shape"):
            shapes[r["shape"]] += 1
        for c in r.get("corr", [])[:2]:
            res.proof_break("correspondence B: %s" % c["what"], c)
        for n in r.get("notes", []):
            notes[n[:160]] += 1
        geometry += r.get("geometry_samples", [])
        fails += r.get("fails", [])
    fails.sort(key=lambda f: f["size"])
    if a_fail:
        # the smallest file on which the same failure shows on the rule engine goes into the same replay
        same = next((f for f in fails if (f["site"], f["kind"]) == a_fail[:2] and f["replay"].get("mode") == "B"), None)
        if same:
            a_fail[3]["file_example"] = same["replay"]
            a_fail = (a_fail[0], a_fail[1], a_fail[2] + "; on the rule engine: " + same["detail"], a_fail[3])
        res.fail(*a_fail)
    for f in fails:
        res.fail(f["site"], f["kind"], f["detail"], f["replay"])
    harness_errors = status.get("harness", 0)
    res.coverage.update(
        {
            "evaluations": A["n"] + sum(v for k, v in status.items() if k == "ok"),
            "distinct_nontrivial": A["nontrivial"] + stats.get("nontrivial", 0),
            "rule": RULE,
            "samples": samples[:3] + [{"B_failure": {"site": f["site"], "kind": f["kind"], "detail": f["detail"][:300]}} for f in fails[:3]],
            "has_code_tag_variant_of_repo": variant,
            "A": dict(A, wall_s=round(a_wall, 1), defects=len(a_defects)),
            "B": {"jobs": len(b_jobs), "files": n_files, "status": dict(status), "shapes": dict(shapes), "stats": dict(stats), "wall_s": round(b_wall, 1), "failure_counts": dict(collections.Counter("%s|%s" % (f["site"], f["kind"]) for f in fails)), "notes": dict(notes.most_common(8)), "fix_changes_tag_geometry_samples": [g for cls in ("stale", "moved_out", "unstamped") for g in [x for x in geometry if x["class"] == cls][:2]]},
        }
    )
    res.assumptions = ASSUMPTIONS
    if harness_errors:
        print("HARNESS-ERROR property=%s (%d B jobs failed inside the harness)" % (prop, harness_errors))
        res.finish(max(nobl, 1), ndis, cmd, thms)
        return 2
    return res.finish(max(nobl, 1), ndis, cmd, thms)


def replay(prop, path):
    import gen_tables

    gen_tables.generate()
    ok, outp = leanio.lake_build()
    if not ok:
        print(outp[-800:])
        return 2
    d = json.load(open(path))
    if d.get("kind") == "no-failing-input-found":
        print(json.dumps(d, indent=1)[:3000])
        return 0
    inp = d["input"]
    import vsgrun  # noqa: F401

    variant = detect_variant()
    print("has_code_tag variant of /repo:", variant)
    if inp["mode"] == "A":
        seq = [tuple(t) for t in inp["seq"]]
        toks = real_tokens(seq)
        VF = sys.modules["vsg.vhdlFile.vhdlFile"]
        VF.set_code_tags(toks)
        ct = Ct()
        rows = ct.stamp([ttok(o) for o in toks], inp["ids"], scan=True)
        ct.close()
        bad = 0
        for i, (t, o, row) in enumerate(zip(seq, toks, rows)):
            real = [bool(o.has_code_tag(x)) for x in inp["ids"]]
            flag = "" if real == row[3] else "   <-- real has_code_tag %r, specification %r for ids %r" % (real, row[3], inp["ids"])
            bad += real != row[3]
            print("%3d %-40r tags=%r%s" % (i, t[1] if t[0] == "c" else t[0], list(o.code_tags), flag))
        if bad:
            print("REPRODUCED property=%s tokens=%d" % (prop, bad))
        if "file_example" in inp:
            print("--- the same on a file (mode B):")
            tmpd = dict(d)
            tmpd["input"] = inp["file_example"]
            import tempfile

            tdir = tempfile.mkdtemp(prefix="c11replay-")
            try:
                tp = os.path.join(tdir, "r.json")
                json.dump(tmpd, open(tp, "w"))
                bad += replay(prop, tp)
            finally:
                import shutil

                shutil.rmtree(tdir)
        return 1 if bad else 0
    _binit()
    try:
        lines = vsgrun.text_to_lines(inp["text"])
        if inp["mode"] == "wrap":
            o, rl, off = check_recorded(lines)
            kept = [e for e in off if e["kept"]]
            for e in kept[:10]:
                print("reported under bare vsg_off:", e["rule"], e["line"], e["sol"][:80])
            fixed_lines, _, _, _ = vsgrun.plain_fix(lines, *_W["cfg"])
            ch = [l.rstrip() for l in fixed_lines] != [l.rstrip() for l in lines]
            if ch:
                print("--fix changes the file beyond trailing whitespace")
            if kept or ch:
                print("REPRODUCED property=%s" % prop)
            return 1 if kept or ch else 0
        if inp["mode"] == "Bfix":
            f = fix_recorded(lines)
            cls = inp.get("class", "stale")
            for s in f[cls][:10]:
                print(json.dumps(s))
            if f[cls]:
                print("REPRODUCED property=%s class=%s offers=%d" % (prop, cls, len(f[cls])))
            return 1 if f[cls] else 0
        # mode B: the text is the tagged file; the neutral file is derived from the recorded placement
        ins = []
        nl = list(lines)
        texts = [t for _, t in inp["placement"]]
        for i, l in enumerate(lines):
            if l.strip() in [t.strip() for t in texts]:
                ins.append(i)
                nl[i] = l.replace("vsg_", "vsx_", 1).replace("VSG_", "VSX_", 1)
        r = compare_tagged_neutral(lines, nl, ins)
        for m in r["mism"][:12]:
            print(m["dir"], m["violation"][:3])
        print("explained by the pinned has_code_tag:", r["explained_by_pinned"])
        bad = [m for m in r["mism"] if m["dir"] != "analysisReadsTag"]
        if bad:
            print("REPRODUCED property=%s mismatches=%d" % (prop, len(bad)))
        return 1 if bad else 0
    finally:
        _W["ct"].close()
