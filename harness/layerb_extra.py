"""
Hook of the layer-B correspondences that have their own development-aid modes (BLINES: line-structure family,
BMULTI: multi-line structure family) into the registered checks C01 / C02 / C03: the synthetic and per-violation
correspondence of the Lean `_fix_violation` models with the real classes, the replay of the Lean witnesses on the
real classes, and the defect search on whole files.  One run per (tree, tier, seed), shared through the cache.
A disagreement between model and code is a proof break of every property that rests on the family; a finding of
the defect search goes to the property it belongs to.
"""
import hashlib
import os
import pickle

import common


def _compute(tier):
    import gen_tables

    gen_tables.generate()
    breaks, findings, cov = [], [], {}
    sd = common.seed() or 1
    # ---- line-structure family
    import blines_synth
    import props_blines

    synth = blines_synth.run_synth(tier, sd)
    for m in synth["mismatches"][:3]:
        breaks.append(("bfix synthetic correspondence %s (line-structure family)" % m.get("rule"), m))
    bad, wm, nw = props_blines.witness_replay()
    for b in bad:
        breaks.append(("Lean witness not reproduced on the real class: %s" % b["witness"], b))
    for m in wm:
        breaks.append(("bfix witness correspondence %s" % m.get("rule"), m))
    found, ntexts = props_blines.defect_search(tier)
    for f in found:
        findings.append((f["prop"], f["site"], f["kind"], f["detail"], dict(f["input"], via="props_blines")))
    cov["line_structure"] = {"synthetic_cases": synth["cases"], "synthetic_by_owner": synth["by_owner"], "synthetic_mismatches": synth["n_mismatch"], "witnesses_replayed_on_real_classes": nw, "defect_search_texts": ntexts}
    # ---- multi-line structure family
    import bmulti_synth
    import props_bmulti

    synth = bmulti_synth.run_synth(tier, sd)
    for m in synth["mismatches"][:3]:
        breaks.append(("bfix synthetic correspondence %s (multi-line structure family)" % m.get("rule"), m))
    viol = bmulti_synth.run_violations(tier, sd)
    for m in viol["mismatches"][:3]:
        breaks.append(("bfix per-violation correspondence %s" % m.get("rule"), m))
    bad, wm, nw = props_bmulti.witness_replay()
    for b in bad:
        breaks.append(("Lean witness not reproduced on the real class: %s" % b["witness"], b))
    for m in wm:
        breaks.append(("bfix witness correspondence %s" % m.get("rule"), m))
    for name, opts, text, expect in props_bmulti.FILES:
        kind, out = props_bmulti.file_job((name, opts, text))
        rp = {"name": name, "options": opts, "text": text, "via": "props_bmulti"}
        if expect is None:
            if kind is not None:
                findings.append(("C02", "multiline_structure", kind, "%s: %r -> %r" % (name, text, out), rp))
            continue
        site, want = expect
        if kind != want:
            breaks.append(("defect %s no longer reproduces on the real fix path" % name, {"expected": want, "got": kind, "output": out}))
            continue
        findings.append(("C02", site, kind, "%s: %r -> %r" % (name, text, out), rp))
    cov["multi_line_structure"] = {"synthetic_cases": synth["cases"], "synthetic_by_owner": synth["by_owner"], "synthetic_mismatches": synth["n_mismatch"], "per_violation_replayed": viol["violations"], "per_violation_by_owner": viol["by_owner"], "per_violation_mismatches": viol["n_mismatch"], "witnesses_replayed_on_real_classes": nw, "whole_file_texts": len(props_bmulti.FILES)}
    # ---- structure family (insert / remove / parentheses / split): synthetic regions through the real classes and
    # the Lean functions, Lean witnesses and whole-file reproductions on the real code
    import bsynth_struct

    recs = bsynth_struct.synthetic_records(150 if tier == "quick" else 1500, sd)
    nok, nexc, fam, mism = bsynth_struct.replay(recs)
    for m in mism[:3]:
        breaks.append(("bfix synthetic correspondence (structure family)", m))
    nwit = 0
    for name, ok, detail in bsynth_struct.witnesses():
        nwit += 1
        if not ok:
            breaks.append(("Lean witness / whole-file reproduction of the structure family no longer holds on the real code: %s" % name, {"detail": detail[:400]}))
    cov["structure"] = {"synthetic_cases": len(recs), "results": nok, "real_exceptions": nexc, "by_family": fam, "synthetic_mismatches": len(mism), "witnesses_replayed_on_real_classes": nwit}
    return {"breaks": breaks, "findings": findings, "coverage": cov}


def extra(res, tier, prop=None):
    prop = prop or res.prop
    key = hashlib.sha256(("%s/%s/%d" % (common.tree_hash(), tier, common.seed())).encode()).hexdigest()[:20]
    path = os.path.join(common.CACHE, "layerb-%s.pkl" % key)
    data = None
    if os.path.exists(path):
        try:
            data = pickle.load(open(path, "rb"))
        except Exception:  # noqa: BLE001
            data = None
    if data is None:
        data = _compute(tier)
        os.makedirs(common.CACHE, exist_ok=True)
        tmp = "%s.tmp%d" % (path, os.getpid())
        with open(tmp, "wb") as f:
            pickle.dump(data, f)
        os.replace(tmp, path)
    for what, detail in data["breaks"]:
        res.proof_break(what, detail)
    for p, site, kind, detail, rp in data["findings"]:
        if p == prop:
            res.fail(site, kind, detail, rp)
    res.coverage["layer_b_structure_families"] = data["coverage"]
