"""
Self-test of the line-structure layer-B checks.  Never touches /repo: the real functions are
monkeypatched IN THIS PROCESS with plausible bugs (the worker processes are forked afterwards and
inherit the patch); each time the synthetic correspondence / the defect search must report it.
"""
import os
import sys

HERE = os.path.dirname(os.path.abspath(__file__))
sys.path.insert(0, HERE)

import gen_tables  # noqa: E402

gen_tables.generate()

import blines_synth  # noqa: E402
import props_blines  # noqa: E402

from vsg import parser  # noqa: E402
from vsg.rules import move_token_next_to_another_token as mtn  # noqa: E402
from vsg.rules import remove_carriage_return_after_token as rcr  # noqa: E402
from vsg.rules import utils as rules_utils  # noqa: E402
from vsg.vhdlFile import utils  # noqa: E402

results = []


def expect(name, cond, detail=""):
    results.append((name, bool(cond)))
    print("%-72s %s %s" % (name, "detected" if cond else "MISSED", detail))


def synth_small():
    return blines_synth.run_synth("quick", 1, procs=8)


# 0. unpatched: clean
base = synth_small()
expect("baseline: unpatched tree has 0 synthetic mismatches", base["n_mismatch"] == 0, "(%d cases)" % base["cases"])
results[-1] = (results[-1][0], base["n_mismatch"] == 0)

# 1. remove_consecutive_whitespace_tokens compares with the last KEPT token (a plausible 'clean-up')
real = utils.remove_consecutive_whitespace_tokens


def rcw_bug(lTokens):
    out = []
    for t in lTokens:
        if out and isinstance(t, parser.whitespace) and isinstance(out[-1], parser.whitespace):
            continue
        out.append(t)
    return out


utils.remove_consecutive_whitespace_tokens = rcw_bug
r = synth_small()
utils.remove_consecutive_whitespace_tokens = real
# (same function on every input: the clean-up is equivalent, which the check must also show)
expect("rcw compared with the last kept token: equivalent, no alarm", r["n_mismatch"] == 0)

# 2. fix_blank_lines without the wrap-around of lTokens[iToken - 1] at index 0
real_fbl = utils.fix_blank_lines


def fbl_bug(lTokens):
    out = []
    for i, t in enumerate(lTokens):
        nxt = lTokens[i + 1] if i + 1 < len(lTokens) else None
        prv = lTokens[i - 1] if i > 0 else None
        if isinstance(t, parser.carriage_return) and isinstance(nxt, parser.carriage_return):
            out += [t, parser.blank_line()]
            continue
        if isinstance(prv, parser.carriage_return) and isinstance(t, parser.whitespace) and isinstance(nxt, parser.carriage_return):
            out.append(parser.blank_line())
            continue
        out.append(t)
    return out


utils.fix_blank_lines = fbl_bug
r = synth_small()
utils.fix_blank_lines = real_fbl
expect("fix_blank_lines without Python's index -1 wrap-around", r["n_mismatch"] > 0, "(%d mismatches)" % r["n_mismatch"])

# 3. insert_token without the fall-back to lTokens[0] (raises where the real one does not)
real_it = rules_utils.insert_token


def it_bug(lTokens, index, oToken):
    oToken.code_tags = lTokens[index].code_tags
    lTokens.insert(index, oToken)


rules_utils.insert_token = it_bug
r = synth_small()
rules_utils.insert_token = real_it
expect("insert_token without the IndexError fall-back", r["n_mismatch"] > 0, "(%d mismatches)" % r["n_mismatch"])

# 4. move_token_next_to_another_token drops the moved token (code loss)
real_fv = mtn._fix_violation


def fv_bug(self, oViolation):
    lTokens = oViolation.get_tokens()
    lTokens.pop(oViolation.get_token_value())
    rules_utils.insert_whitespace(lTokens, 1)
    oViolation.set_tokens(utils.fix_blank_lines(utils.remove_consecutive_whitespace_tokens(lTokens)))


mtn._fix_violation = fv_bug
r = synth_small()
found, _ = props_blines.defect_search("quick")
mtn._fix_violation = real_fv
expect("move_token_next… loses the moved token: correspondence", r["n_mismatch"] > 0, "(%d mismatches)" % r["n_mismatch"])
expect("move_token_next… loses the moved token: defect search (C01 codeChanged)", any(f["prop"] == "C01" and f["site"] == "move_token_next_to_another_token" for f in found))

# 5. remove_carriage_return_after_token with its repair REVERTED (removes every line break again): the
#    model of the repaired tree must disagree and the defect search must find the swallowed code again
real_rc = rcr._fix_violation


def rc_unrepaired(self, oViolation):
    lTokens = oViolation.get_tokens()
    lTokens = utils.remove_carriage_returns_from_token_list(lTokens)
    lTokens = utils.remove_consecutive_whitespace_tokens(lTokens)
    if self.bInsertSpace:
        if not isinstance(lTokens[1], parser.whitespace):
            rules_utils.insert_whitespace(lTokens, 1)
    oViolation.set_tokens(lTokens)


rcr._fix_violation = rc_unrepaired
r = synth_small()
bad, wm, _ = props_blines.witness_replay()
rcr._fix_violation = real_rc
expect("remove_carriage_return… repair reverted: model no longer corresponds", r["n_mismatch"] > 0 and (bad or wm), "(%d mismatches, %d witnesses off)" % (r["n_mismatch"], len(bad)))

ok = all(c for _, c in results)
print("SELFTEST", "OK" if ok else "FAILED", "%d/%d" % (sum(1 for _, c in results if c), len(results)))
sys.exit(0 if ok else 1)
