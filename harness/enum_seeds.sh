#!/bin/sh
# development aid: run every quick check under several seeds in a private copy of /verif and collect the
# replay files of whatever is reported.   usage: enum_seeds.sh "1 2 3" "C01 C02 …"
SEEDS="$1"; PROPS="$2"
COPY=/tmp/enumverif
rm -rf $COPY && mkdir -p $COPY && rsync -a --exclude out --exclude '.cache/sweep-*' /verif/ $COPY/
cd $COPY || exit 2
mkdir -p /tmp/enum_out
for s in $SEEDS; do
  for p in $PROPS; do
    VERIF_SEED=$s ./check $p quick > /tmp/enum_out/${p}_s$s.log 2>&1
    grep -c "^VIOLATION" /tmp/enum_out/${p}_s$s.log | sed "s/^/$p seed $s violations: /" >> /tmp/enum_out/summary.txt
    mkdir -p /tmp/enum_out/replays_s$s && cp out/replays/${p}_*.json /tmp/enum_out/replays_s$s/ 2>/dev/null
    rm -f out/replays/${p}_*.json
  done
done
echo finished >> /tmp/enum_out/summary.txt
