"""
Layer G, WP2: per-rule parameters of the families that are B-full in `lean/VsgModel/BFull2/*`
(indent family; vertical-spacing families), read from the instantiated rule objects and written to

    lean/VsgModel/Generated/BFull2Rules.lean

Called from gen_tables.generate().  A rule is listed only if `_fix_violation`, `_analyze` and
`_get_tokens_of_interest` all come from the modelled base classes (a rule file that overrides one of
them is not the modelled rule).
"""
import inspect
import os

INDENT = "vsg.rules.token_indent.token_indent"
INDENT_TOI = {
    "vsg.rules.token_indent.token_indent": 0,
    "vsg.rules.token_indent_between_tokens.token_indent_between_tokens": 1,
    "vsg.rules.token_indent_between_tokens_unless_between_tokens.token_indent_between_tokens_unless_between_tokens": 2,
    "vsg.rules.token_indent_unless_between_tokens.token_indent_unless_between_tokens": 3,
}

BELOW = "vsg.rules.blank_line_below_line_ending_with_token.blank_line_below_line_ending_with_token"
ABOVE = "vsg.rules.blank_line_above_line_starting_with_token.blank_line_above_line_starting_with_token"
PREV = "vsg.rules.previous_line.previous_line"
VS_OWNERS = {BELOW: 0, ABOVE: 1, PREV: 2}


def owner_of(cls, attr):
    for k in cls.__mro__:
        if attr in k.__dict__:
            return k.__module__ + "." + k.__qualname__
    return None


def _cidx(class_index, c):
    if not inspect.isclass(c):
        return None
    return class_index.get(c.__module__ + "." + c.__qualname__)


def _clist(class_index, l):
    out = []
    for c in l or []:
        i = _cidx(class_index, c)
        if i is None:
            return None
        out.append(i)
    return out


def indent_rows(rules, class_index):
    rows = []
    for r in rules:
        cls = type(r)
        if owner_of(cls, "_fix_violation") != INDENT or owner_of(cls, "_analyze") != INDENT:
            continue
        v = INDENT_TOI.get(owner_of(cls, "_get_tokens_of_interest"))
        if v is None:
            continue
        cs = _clist(class_index, r.lTokens)
        if cs is None:
            continue
        row = {"id": r.unique_id, "cs": cs, "variant": v, "a": 0, "b": 0, "incl": False, "unless": []}
        if v in (1, 2):
            a, b = _cidx(class_index, r.oStart), _cidx(class_index, r.oEnd)
            if a is None or b is None:
                continue
            row.update(a=a, b=b, incl=bool(r.bInclusive))
        if v in (2, 3):
            un = []
            ok = True
            for p in r.lUnless:
                if len(p) != 2:
                    ok = False
                    break
                x, y = _cidx(class_index, p[0]), _cidx(class_index, p[1])
                if x is None or y is None:
                    ok = False
                    break
                un.append([x, y])
            if not ok:
                continue
            row["unless"] = un
        rows.append(row)
    rows.sort(key=lambda x: x["id"])
    return rows


def vspace_rows(rules, class_index):
    """blank_line_below_line_ending_with_token / blank_line_above_line_starting_with_token / previous_line:
    `lTokens`, `lAllowTokens`, default `style`, `lHierarchyLimits`; `toi`: 1 if the rule's own file overrides
    `_get_tokens_of_interest` or `_set_allow_tokens` / `_analyze` (then the row is informative only)"""
    rows = []
    for r in rules:
        cls = type(r)
        fo = owner_of(cls, "_fix_violation")
        if fo not in VS_OWNERS:
            continue
        cs = _clist(class_index, getattr(r, "lTokens", None))
        allow = _clist(class_index, getattr(r, "lAllowTokens", None))
        own = owner_of(cls, "_analyze") == fo and owner_of(cls, "_get_tokens_of_interest") == fo
        sat = owner_of(cls, "_set_allow_tokens")
        if sat is not None and sat != fo:
            own = False
        hl = getattr(r, "lHierarchyLimits", None)
        if cs is None or allow is None:
            own = False
            cs = cs or []
            allow = allow or []
        rows.append(
            {
                "id": r.unique_id,
                "family": VS_OWNERS[fo],
                "cs": cs,
                "allow": allow,
                "style": r.style if isinstance(getattr(r, "style", None), str) else "",
                "hier": None if hl is None else [int(x) for x in hl],
                "own": bool(own),
                "solution": getattr(r, "solution", None) if isinstance(getattr(r, "solution", None), str) else "",
            }
        )
    rows.sort(key=lambda x: x["id"])
    return rows


PREFIX = "vsg.rules.token_prefix.token_prefix"
SUFFIX = "vsg.rules.token_suffix.token_suffix"
AFFIX_TOI = {
    "token_prefix": 0,
    "token_suffix": 0,
    "token_prefix_between_tokens": 1,
    "token_suffix_between_tokens": 1,
    "token_prefix_between_tokens_unless_between_tokens": 2,
    "token_suffix_between_tokens_unless_between_tokens": 2,
}


def affix_rows(rules, class_index):
    """token_prefix / token_suffix rules (wp2b): kind (0 prefix, 1 suffix), `lTokens`, extractor variant (0 plain,
    1 between, 2 between-unless, 3 port rules port_600..609: interface elements with a mode keyword), `oStart`,
    `oEnd`, `lUnless`, mode keyword class, default prefixes / suffixes"""
    import re

    rows = []
    for r in rules:
        cls = type(r)
        ao = owner_of(cls, "_analyze")
        if ao not in (PREFIX, SUFFIX):
            continue
        kind = 0 if ao == PREFIX else 1
        cs = _clist(class_index, r.lTokens)
        if cs is None:
            continue
        to = owner_of(cls, "_get_tokens_of_interest").split(".")[-1]
        row = {"id": r.unique_id, "kind": kind, "cs": cs, "variant": None, "a": 0, "b": 0, "unless": [], "mode": 0, "affixes": getattr(r, "prefixes" if kind == 0 else "suffixes", None)}
        if to in AFFIX_TOI:
            v = AFFIX_TOI[to]
            row["variant"] = v
            if v in (1, 2):
                a, b = _cidx(class_index, r.oStart), _cidx(class_index, r.oEnd)
                if a is None or b is None:
                    continue
                row.update(a=a, b=b)
            if v == 2:
                un = []
                for pr in r.lUnless:
                    x, y = _cidx(class_index, pr[0]), _cidx(class_index, pr[1])
                    if len(pr) != 2 or x is None or y is None:
                        un = None
                        break
                    un.append([x, y])
                if un is None:
                    continue
                row["unless"] = un
        else:
            try:
                src = inspect.getsource(cls._get_tokens_of_interest)
            except (OSError, TypeError):
                continue
            m = re.search(r"extract_identifiers_with_mode_of_(\w+)", src)
            m2 = re.search(r"get_interface_elements_between_tokens\(token\.port_clause\.open_parenthesis, token\.port_clause\.close_parenthesis\)", src)
            if not m or not m2:
                continue
            mode = {"input": "in", "out": "out", "inout": "inout", "buffer": "buffer", "linkage": "linkage"}.get(m.group(1))
            mc = class_index.get("vsg.token.mode.%s_keyword" % mode)
            a = class_index.get("vsg.token.port_clause.open_parenthesis")
            b = class_index.get("vsg.token.port_clause.close_parenthesis")
            if mc is None or a is None or b is None:
                continue
            row.update(variant=3, a=a, b=b, mode=mc)
        if not (row["affixes"] is None or (isinstance(row["affixes"], list) and all(isinstance(x, str) for x in row["affixes"]))):
            continue
        rows.append(row)
    rows.sort(key=lambda x: x["id"])
    return rows


def emit_affix(arows, class_index, lean_str, lean_list):
    L = []
    L.append("/-- parameters of one token_prefix / token_suffix rule (wp2b): kind 0 prefix / 1 suffix; `lTokens`; extractor")
    L.append("    variant 0 plain, 1 between, 2 between-unless, 3 port-mode; `oStart`, `oEnd`; `lUnless`; mode keyword class;")
    L.append("    the default `prefixes` / `suffixes` (none = None) -/")
    L.append("structure AffixRuleRow where")
    L.append("  id : String")
    L.append("  kind : Nat")
    L.append("  cs : List Nat")
    L.append("  variant : Nat")
    L.append("  a : Nat")
    L.append("  b : Nat")
    L.append("  unl : List (Nat × Nat)")
    L.append("  mode : Nat")
    L.append("  affixes : Option (List String)")
    L.append("  deriving Repr, DecidableEq")
    items = []
    for r in arows:
        items.append(
            "  { id := %s, kind := %d, cs := %s, variant := %d, a := %d, b := %d, unl := %s, mode := %d, affixes := %s }"
            % (lean_str(r["id"]), r["kind"], lean_list([str(x) for x in r["cs"]]), r["variant"], r["a"], r["b"], lean_list(["(%d, %d)" % (x, y) for x, y in r["unless"]]), r["mode"], "none" if r["affixes"] is None else "some " + lean_list([lean_str(x) for x in r["affixes"]]))
        )
    names = []
    for i in range(0, max(len(items), 1), 32):
        nm = "affixRuleChunk%d" % (i // 32)
        names.append(nm)
        L.append("def %s : List AffixRuleRow := [\n%s\n]" % (nm, ",\n".join(items[i : i + 32])))
    L.append("def affixRuleTable : List AffixRuleRow := " + " ++ ".join(names))
    for nm, py in (("identifierCls", "vsg.parser.identifier"), ("preprocessorCls", "vsg.parser.preprocessor")):
        L.append("def %s : Nat := %d" % (nm, class_index.get(py, 0)))
    return L


def emit(irows, vrows, lean_str, lean_list, lean_bool, class_index=None, arows=None):
    L = []
    L.append("/- GENERATED by harness/gen_bfull2.py from the instantiated rule objects of /repo — do not edit -/")
    L.append("namespace Vsgm.Gen")
    L.append("/-- parameters of one indent rule: `lTokens`; extractor variant (0 plain, 1 between, 2 between-unless,")
    L.append("    3 unless); `oStart`, `oEnd`, `bInclusive`; `lUnless` -/")
    L.append("structure IndentRuleRow where")
    L.append("  id : String")
    L.append("  cs : List Nat")
    L.append("  variant : Nat")
    L.append("  a : Nat")
    L.append("  b : Nat")
    L.append("  incl : Bool")
    L.append("  unl : List (Nat × Nat)")
    L.append("  deriving Repr, DecidableEq")
    items = []
    for r in irows:
        items.append(
            "  { id := %s, cs := %s, variant := %d, a := %d, b := %d, incl := %s, unl := %s }"
            % (lean_str(r["id"]), lean_list([str(x) for x in r["cs"]]), r["variant"], r["a"], r["b"], lean_bool(r["incl"]), lean_list(["(%d, %d)" % (x, y) for x, y in r["unless"]]))
        )
    names = []
    for i in range(0, max(len(items), 1), 32):
        nm = "indentRuleChunk%d" % (i // 32)
        names.append(nm)
        L.append("def %s : List IndentRuleRow := [\n%s\n]" % (nm, ",\n".join(items[i : i + 32])))
    L.append("def indentRuleTable : List IndentRuleRow := " + " ++ ".join(names))
    L.append("/-- parameters of one vertical-spacing rule: family (0 blank_line_below_line_ending_with_token, 1")
    L.append("    blank_line_above_line_starting_with_token, 2 previous_line), `lTokens`, `lAllowTokens`, default `style`,")
    L.append("    `lHierarchyLimits` (none = None), `own` = extractor / analysis / allow-token hook not overridden -/")
    L.append("structure VSpaceRuleRow where")
    L.append("  id : String")
    L.append("  family : Nat")
    L.append("  cs : List Nat")
    L.append("  allow : List Nat")
    L.append("  style : String")
    L.append("  hier : Option (List Int)")
    L.append("  own : Bool")
    L.append("  solution : String")
    L.append("  deriving Repr, DecidableEq")
    items = []
    for r in vrows:
        items.append(
            "  { id := %s, family := %d, cs := %s, allow := %s, style := %s, hier := %s, own := %s, solution := %s }"
            % (
                lean_str(r["id"]),
                r["family"],
                lean_list([str(x) for x in r["cs"]]),
                lean_list([str(x) for x in r["allow"]]),
                lean_str(r["style"]),
                "none" if r["hier"] is None else "some " + lean_list([str(x) for x in r["hier"]]),
                lean_bool(r["own"]),
                lean_str(r["solution"] or ""),
            )
        )
    names = []
    for i in range(0, max(len(items), 1), 32):
        nm = "vspaceRuleChunk%d" % (i // 32)
        names.append(nm)
        L.append("def %s : List VSpaceRuleRow := [\n%s\n]" % (nm, ",\n".join(items[i : i + 32])))
    L.append("def vspaceRuleTable : List VSpaceRuleRow := " + " ++ ".join(names))
    # BEGIN wp2_vspace
    if class_index is not None:
        L.append("/-- class number of `token.pragma.pragma` (appended to lAllowTokens by require_blank_line_unless_pragma) -/")
        L.append("def pragmaCls : Nat := %d" % class_index["vsg.token.pragma.pragma"])
    # END wp2_vspace
    # BEGIN wp2b_affix
    if class_index is not None and arows is not None:
        L += emit_affix(arows, class_index, lean_str, lean_list)
    # END wp2b_affix
    L.append("end Vsgm.Gen")
    return "\n".join(L) + "\n"


def generate(class_index, gen_dir, write_if_changed, lean_str, lean_list, lean_bool):
    from vsg import rule_list

    rules = rule_list.load_rules()
    irows = indent_rows(rules, class_index)
    vrows = vspace_rows(rules, class_index)
    arows = affix_rows(rules, class_index)  # wp2b_affix
    changed = write_if_changed(os.path.join(gen_dir, "BFull2Rules.lean"), emit(irows, vrows, lean_str, lean_list, lean_bool, class_index, arows))
    return {"indent": irows, "vspace": vrows, "affix": arows}, changed
