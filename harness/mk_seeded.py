"""development aid: build /verif/seeded/<id>/ (patch.diff, demo.py, meta.json) from the helper deliveries in
/tmp/seed_out and my own evaluations in /tmp/seed_res (seedtest.py output), keeping only the changes that were
confirmed here: patch applies, demo passes on the clean tree and fails on the changed tree, full suite shows no new
failure.  Also writes seeded/RESULTS.md (which check catches which change)."""
import glob
import json
import os
import shutil

VERIF = os.path.dirname(os.path.dirname(os.path.abspath(__file__)))
OUT = os.path.join(VERIF, "seeded")
SRC = "/tmp/seed_out"
RES = "/tmp/seed_res"


def load(path):
    s = open(path).read()
    try:
        return json.loads(s[s.index("{") :])
    except Exception:  # noqa: BLE001
        return None


def main():
    os.makedirs(OUT, exist_ok=True)
    rows = []
    for d in sorted(x for x in glob.glob(os.path.join(SRC, "C[0-9][0-9]_*[a-z0-9]")) if os.path.isdir(x)):
        name = os.path.basename(d)
        results = {}
        hist = {}
        for f in sorted(glob.glob(os.path.join(RES, name + "*.json"))):
            r = load(f)
            if r:
                for k, v in r.items():
                    if k.startswith("check_"):
                        # several evaluations of the same check (before / after a strengthening): the last one counts,
                        # the sequence of exit codes is kept
                        hist.setdefault(k[6:], []).append({"file": os.path.basename(f), "exit": v.get("exit"), "violations": len(v.get("violations") or [])})
                        results[k[6:]] = v
                    elif k not in results or results.get(k) is None:
                        results[k] = v
        if not results:
            continue
        ok = results.get("apply") == 0 and results.get("demo_clean") == 0 and results.get("demo_mutated") not in (0, None) and results.get("suite_new_failures") == []
        meta_path = os.path.join(d, "meta.json")
        meta = json.load(open(meta_path)) if os.path.exists(meta_path) else {}
        checks = {p: v for p, v in results.items() if isinstance(v, dict) and "exit" in v}
        caught = sorted(p for p, v in checks.items() if v["exit"] == 1)
        rows.append((name, meta.get("property"), ok, caught, sorted(checks), meta.get("summary", "")[:160], results))
        if not ok:
            continue
        dst = os.path.join(OUT, name)
        os.makedirs(dst, exist_ok=True)
        shutil.copy(os.path.join(d, "patch.diff"), dst)
        shutil.copy(os.path.join(d, "demo.py"), dst)
        meta["confirmed_here"] = {
            "patch_applies_to_repo_head": True,
            "demo_exit_on_unchanged_tree": results.get("demo_clean"),
            "demo_exit_on_changed_tree": results.get("demo_mutated"),
            "full_suite_passed": results.get("suite_passed"),
            "full_suite_new_failures": results.get("suite_new_failures"),
            "how": "harness/seedtest.py: two scratch worktrees of /repo (clean, patched) under /tmp, demo.py on both, full suite on the patched one (-n 12), then ./check <property> quick with PYTHONPATH/VSG_REPO pointing at the patched worktree; worktrees removed afterwards",
            "checks_run": {p: {"exit": v["exit"], "violations": v["violations"][:4], "wall_s": v["wall"]} for p, v in checks.items()},
            "caught_by": caught,
            "evaluation_history": hist,
            "what_the_check_reported": (results.get("replays") or [])[:4],
        }
        with open(os.path.join(dst, "meta.json"), "w") as f:
            json.dump(meta, f, indent=1)
    with open(os.path.join(OUT, "RESULTS.md"), "w") as f:
        f.write("# Seeded changes: which check catches which\n\n")
        f.write("Changes written by helper sessions that saw only the property text (and a scratch worktree of /repo).\n")
        f.write("`kept` = confirmed here (applies, demo passes clean / fails changed, suite unchanged).\n\n")
        f.write("| id | property | kept | checks run | caught by | summary |\n|---|---|---|---|---|---|\n")
        for name, prop, ok, caught, run, summ, _ in rows:
            f.write("| %s | %s | %s | %s | %s | %s |\n" % (name, prop, "yes" if ok else "no", " ".join(run), " ".join(caught) or "—", summ.replace("|", "/")))
    print(len(rows), "evaluated;", sum(1 for r in rows if r[2]), "kept")


if __name__ == "__main__":
    main()
