"""
Self-test of the C05 check logic (never touches /repo): the real functions are monkeypatched in
this process with plausible bugs and the search / correspondence must notice.
    /venv/bin/python harness/selftest_c05.py
"""
import os
import sys

sys.path.insert(0, os.path.dirname(os.path.abspath(__file__)))

import common  # noqa: E402
import gen_tables  # noqa: E402
import props_c05 as P  # noqa: E402


def run_jobs(kinds, do_corr):
    files = ["extra/attributes.vhd", "extra/exponent.vhd", "extra/subprograms.vhd"] + [f for f in P.gen_inputs.corpus_files() if "/tests/rule_doc/" not in f][:40]
    fails, bad = [], 0
    for f in files:
        r = P.job((f, kinds, [0, 1], do_corr, 4))
        assert "harness_error" not in r, r.get("harness_error")
        fails.extend(r["fails"])
        bad += r["corr"]["prim_bad"] + r["corr"]["pass_bad"]
    return fails, bad


def main():
    gen_tables.generate()
    P._init()
    from vsg import parser
    from vsg.vhdlFile import utils

    ok = True
    # 0. unpatched: nothing to report on the plain family
    fails, bad = run_jobs(["comments", "upper", "nlcmt"], True)
    print("baseline: %d failures, %d correspondence breaks" % (len(fails), bad))
    ok &= not fails and bad == 0

    # 1. bug: `--` comments are no longer skipped by the navigation
    real = utils.token_is_whitespace_or_comment
    utils.token_is_whitespace_or_comment = lambda o: real(o) and not isinstance(o, parser.comment)
    fails, bad = run_jobs(["comments", "nlcmt", "cmtall"], True)
    utils.token_is_whitespace_or_comment = real
    print("bug 1 (comments not skipped): %d failures %s, %d correspondence breaks" % (len(fails), sorted({(f["site"], f["kind"]) for f in fails})[:3], bad))
    ok &= bool(fails) and bad > 0

    # 2. bug: keyword test compares the value as written
    real2 = utils.object_value_is
    utils.object_value_is = lambda l, i, s: l[i].get_value() == s
    fails, bad = run_jobs(["upper"], True)
    utils.object_value_is = real2
    print("bug 2 (case-sensitive keyword test): %d failures %s, %d correspondence breaks" % (len(fails), sorted({(f["site"], f["kind"]) for f in fails})[:3], bad))
    ok &= bool(fails) and bad > 0

    # 3. bug: the sign decision of post_token_assignments looks at the token directly in front
    VF = P.vsgrun_VF()
    real3 = VF.utils.are_previous_consecutive_token_types_ignoring_whitespace

    def direct(lTypes, iToken, lObjects):
        try:
            return isinstance(lObjects[iToken], lTypes[0]) if iToken >= 0 else False
        except IndexError:
            return False

    VF.utils.are_previous_consecutive_token_types_ignoring_whitespace = direct
    fails, bad = run_jobs(["ws", "wide", "nlall"], True)
    VF.utils.are_previous_consecutive_token_types_ignoring_whitespace = real3
    print("bug 3 (post pass looks at lTokens[i-1] directly): %d failures %s, %d correspondence breaks" % (len(fails), sorted({(f["site"], f["kind"]) for f in fails})[:3], bad))
    # adjacency-preserving re-layouts cannot expose a look at the direct neighbour (white space stays
    # white space): this bug must be caught by the correspondence with the model alone
    ok &= bad > 0

    print("SELFTEST", "PASSED" if ok else "FAILED")
    return 0 if ok else 1


if __name__ == "__main__":
    sys.exit(main())
