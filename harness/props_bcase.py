"""
Layer B-full of the CASE family (phase 6, 259 rules, five `_fix_violation` owners).

Lean:  lean/VsgModel/Base/Case.lean (+ CaseTables, CaseRegex, CaseCli), theorems `bfull_case_*` /
       `bfix_case_*` / `case_*` in VsgProofs/Properties/{C03,C01,C02,C07,C10}.lean.
Tie:   corr_case.py — the real `case_utils.check_for_case_violation`, the formal-part `_analyze`, the
       value choice of the three consistent_* analyses and the five real `_fix_violation`s against the
       Lean functions (driver modes `caseu`, `bfix`); the harvested real fix steps are replayed by the
       sweep (`bfix`) as for every modelled owner.
Search: the same samples judged on the REAL results (value changed in more than letter case, length
       changed, extended identifier / literal touched, crash), and phase-6-only real fix runs on small
       VHDL texts (`e2e_cases`) — line lengths, token values modulo case, second run.

`contribute(res, prop, tier, tables)` adds what concerns property `prop` to an existing Result (so
props_trace / props_c10 / props_c19 can call it); `run("BCASE", tier)` is the stand-alone entry
(Lean phase of C03 plus the proofs of C01 C02 C07 C10, all findings of all properties).
"""
import json
import os
import sys
import time
import traceback

sys.path.insert(0, os.path.dirname(os.path.abspath(__file__)))

import common  # noqa: E402
import corr_case  # noqa: E402

PROPS = ("C01", "C02", "C03", "C07", "C10", "C19")

# ------------------------------------------------------------------ real fix runs on small texts

ARCH = """entity ent is
  port (
    %(port)s : in    bit
  );
end entity ent;

architecture rtl of ent is

  signal   %(sig)s : bit;
  constant %(const)s : bit := '1';
  type     t_state is ('X', idle, Run);

begin

  %(sig_use)s <= %(port_use)s and %(const)s;

  u_x : entity work.x
    port map (
      %(formal)s => %(sig_use)s,
      DATA   => "AbC"
    );

end architecture rtl;
"""


def case_config(tables, case, extra=None):
    d = {}
    for r in tables["rules"]:
        if r["phase"] == 6 and "case" in r["configuration"]:
            d[r["id"]] = {"case": case}
    for k, v in (extra or {}).items():
        d.setdefault(k, {}).update(v)
    return {"rule": d}


def e2e_cases(tables):
    base = {"port": "Clk_In", "sig": "MySig", "const": "C_One", "formal": "Clk_In"}
    out = []

    def add(name, subst, conf):
        d = dict(base)
        d.update(subst)
        d.setdefault("sig_use", d["sig"])  # the spelling at the places of use (default: as declared)
        d.setdefault("port_use", d["port"])
        out.append({"name": name, "text": ARCH % d, "config": conf})

    add("plain-lower", {}, {})
    add("plain-upper", {}, case_config(tables, "upper"))
    add("eszett-upper", {"sig": "straße"}, case_config(tables, "upper"))
    add("micro-upper", {"const": "c_µs"}, case_config(tables, "upper"))
    add("extended-default", {"sig": "\\MySig\\", "port": "\\Clk_In\\", "formal": "\\Clk_In\\"}, {})
    add("extended-upper", {"sig": "\\MySig\\"}, case_config(tables, "upper"))
    # `\\mysig\\` is NOT the declared `\\MySig\\` (extended identifiers are case-sensitive): the consistent_* rules must not
    # "correct" it, whatever the token_case rules do
    add("extended-distinct", {"sig": "\\MySig\\", "sig_use": "\\mysig\\", "port": "\\Clk_In\\", "port_use": "\\clk_in\\", "formal": "\\CLK_IN\\"}, {})
    add("upper_or_lower", {}, case_config(tables, "upper_or_lower"))
    add("formal-upper_or_lower", {}, {"rule": {"port_map_002": {"case": "upper_or_lower"}}})
    add("prefix-suffix-overlap", {"sig": "I_I"}, {"rule": {"signal_004": {"prefix_exceptions": ["i_"], "suffix_exceptions": ["_i"]}}})
    add("prefix-suffix", {"sig": "I_MySig_O"}, {"rule": {"signal_004": {"prefix_exceptions": ["I_"], "suffix_exceptions": ["_O"], "case": "upper"}}})
    add("exception-dup-formal", {"formal": "CLK_IN", "port": "CLK_IN"}, {"rule": {"port_map_002": {"case_exceptions": ["Clk_In", "CLK_IN"]}}})
    add("exception-dup-signal", {"sig": "MYSIG"}, {"rule": {"signal_004": {"case_exceptions": ["MySig", "mysig"]}}})
    add("camelCase", {}, case_config(tables, "camelCase"))
    return out


def fold1(c):
    lo = c.lower()
    if len(lo) != 1:
        return c
    return "σ" if lo == "ς" else lo


def fold_s(v):
    """the case folding of the Lean checker (Wire.fold): CPython's one-to-one lower() pairs"""
    return "".join(fold1(c) for c in v)


def judge_value_change(va, vb, cls_name):
    """kind of a value change made by a case rule on the real code, None if it is case-only"""
    # `Tok.exact` of the Lean checker: a value that starts with a quote or a backslash compares exactly UNLESS the token is a
    # bit-string value (kind codeCI).  The synthetic direct calls of check_for_case_violation under the rule name
    # "bit_string_literal" are judged as bit-string tokens (hypothesis `TokOk.bitString`; the two rules of that name only
    # look at bit-string classes: C03.case_rule_targets_are_code), so a backslash there is not an extended identifier.
    if cls_name != "bit_value_string" and (va.startswith("\\") or va.endswith("\\")):
        return ("C03", "extendedIdentifierChanged")
    if va.startswith(('"', "'")) and cls_name != "bit_value_string":
        return ("C03", "literalChanged")
    if not (va.lower() == vb.lower() or va.upper() == vb.upper()):
        return ("C01", "codeChanged")
    # str.upper()/lower() of non-ASCII letters ('ß' -> 'SS', 'µ' -> 'Μ'): a defect of its own, kept apart from the
    # ASCII kinds so that listing it does not hide a case rule that rewrites ordinary text
    na = "NonAscii" if any(ord(c) > 127 for c in va) else ""
    if len(va) != len(vb):
        return ("C03", "lengthChanged" + na)
    if fold_s(va) != fold_s(vb):
        return ("C03", "notCaseOnly" + na)
    return None


def phase6_fix(text, conf, tables):
    """the real rule_list.fix restricted to phase 6 (skip_phase 1-5, 7), instrumented per rule"""
    import vsgrun

    cla, oc = vsgrun.make_config(conf_dicts=[conf] if conf else ())
    lines = vsgrun.text_to_lines(text)
    o = vsgrun.parse(lines, cla, oc)
    rl = vsgrun.new_rule_list(o, oc)
    ci = vsgrun.ClassIndex(tables)
    steps, exc, ser = vsgrun.instrumented_fix(o, rl, ci, fix_phase=7, skip_phase=[1, 2, 3, 4, 5, 7])
    return steps, exc, o


def judge_e2e(case, tables):
    """list of (prop, site, kind, detail) found on one real phase-6 fix run (and its repetition)"""
    import sweep
    from vsg import exceptions as vexc

    owner = {r["id"]: sweep.short_owner(r["fixVOwner"]) for r in tables["rules"]}
    found = []
    try:
        steps, exc, o = phase6_fix(case["text"], case["config"], tables)
    except vexc.ClassifyError:
        return [], 0  # the text is rejected by the parser: not an input of this check
    except Exception as e:  # noqa: BLE001 - crash while parsing / configuring
        return [("C19", sweep.crash_site(e), type(e).__name__, "%s: %r" % (case["name"], e))], 0
    changed = 0
    for st in steps:
        if not st.changed:
            continue
        changed += 1
        site = owner.get(st.rule, st.rule)
        if len(st.before) != len(st.after):
            found.append(("C03", site, "tokenCountChanged", "%s: %s" % (case["name"], st.rule)))
            continue
        for (oa, va), (ob, vb) in zip(st.before, st.after):
            if va == vb and oa is ob:
                continue
            if vb is None:
                found.append(("C19", site, "noneValueWritten", "%s: %s wrote None into %s %r; every later len(get_value()) raises TypeError" % (case["name"], st.rule, type(oa).__name__, va)))
                continue
            k = judge_value_change(va, vb, type(oa).__name__)
            if k is not None:
                found.append((k[0], site, k[1], "%s: %s changed %s %r -> %r" % (case["name"], st.rule, type(oa).__name__, va, vb)))
    if exc is not None:
        found.append(("C19", sweep.crash_site(exc), type(exc).__name__, "%s: %s" % (case["name"], "".join(traceback.format_exception_only(type(exc), exc)).strip()[:200])))
        return found, changed
    # C10: the same fix once more on the result
    try:
        text2 = "\n".join(o.get_lines()[1:]) + "\n"
        steps2, exc2, _ = phase6_fix(text2, case["config"], tables)
        for st in steps2:
            if st.changed and exc2 is None:
                k = next(i for i, (x, y) in enumerate(zip(st.before, st.after)) if x[1] != y[1])
                found.append(("C10", owner.get(st.rule, st.rule), "secondFixChanges", "%s: %s changes %r -> %r in a second run" % (case["name"], st.rule, st.before[k][1], st.after[k][1])))
    except Exception:  # noqa: BLE001
        pass
    return found, changed


# ------------------------------------------------------------------ the check


def contribute(res, prop, tier, tables, want_all=False, collect=None):
    """correspondence + search; adds proof breaks / failures concerning `prop` and a coverage block"""
    t0 = time.time()
    rng = common.rng("bcase")
    nvals = 6000 if tier == "quick" else None
    values = corr_case.SYNTH_VALUES + corr_case.corpus_values(nvals)
    checks = corr_case.make_checks(corr_case.SYNTH_VALUES, rng, full=True)
    checks += corr_case.make_checks(corr_case.CAPITAL_SIGMA, rng, full=False)
    checks += corr_case.make_checks(values[len(corr_case.SYNTH_VALUES) :], rng, full=False)
    out = corr_case.run_checks(checks)
    for m in [m for m in out["mismatches"] if m is not None][:5]:
        res.proof_break("correspondence case_utils.check_for_case_violation vs Lean checkForCaseViolation", {"check": m[0], "real": m[1], "lean": m[2]})
    nf, nf_nontriv, mf = corr_case.run_formal(tables, rng, 4000 if tier == "quick" else 40000)
    for m in mf[:3]:
        res.proof_break("correspondence formal-part _analyze vs Lean FormalPart.analyzeToi", {"sample": m[0], "real": m[1], "lean": m[2]})
    nc, nc_nontriv, mc = corr_case.run_consistent(values, rng, 3000 if tier == "quick" else 30000)
    for m in mc[:3]:
        res.proof_break("correspondence consistent_* value choice vs Lean Consistent.expected*", {"tag": m[0], "ids": m[1], "value": m[2], "real": m[3], "lean": m[4]})
    nx, outcomes, mx = corr_case.run_synthetic_fix(tables, rng, 3000 if tier == "quick" else 30000)
    for m in mx[:3]:
        res.proof_break("correspondence real _fix_violation vs Lean fixByOwner (synthetic regions)", {"owner": m[0], "action": m[1], "old": m[2], "real": m[3], "lean": m[4]})
    # search: the REAL results of the same samples
    nfail = 0
    for (p, site, kind), ex in sorted(out["findings"].items()):
        if collect is not None:
            collect.append((p, site, kind, json.dumps(ex[0], ensure_ascii=False)[:600], {"kind": "caseu", "check": ex[0]["check"]}))
        if want_all or p == prop:
            nfail += 1
            res.fail(site, kind, json.dumps(ex[0], ensure_ascii=False)[:600], {"kind": "caseu", "check": ex[0]["check"]})
    e2e = e2e_cases(tables)
    e2e_changed = 0
    e2e_findings = []
    for c in e2e:
        found, changed = judge_e2e(c, tables)
        e2e_changed += 1 if changed else 0
        for p, site, kind, detail in found:
            e2e_findings.append((p, site, kind, detail))
            if collect is not None:
                collect.append((p, site, kind, detail, {"kind": "e2e", "name": c["name"], "text": c["text"], "config": c["config"]}))
            if want_all or p == prop:
                res.fail(site, kind, detail, {"kind": "e2e", "name": c["name"], "text": c["text"], "config": c["config"]})
    res.coverage.setdefault("bcase", {})
    res.coverage["bcase"] = {
        "rule": "one evaluation = one call of the REAL case_utils.check_for_case_violation (value, case style, prefix/suffix/whole-word exception lists, flags, index) compared with the Lean function; non-trivial = the real call reported a violation or raised",
        "check_calls": out["n"],
        "check_calls_nontrivial": out["nontrivial"],
        "check_results": out["by_result"],
        "check_unmodelled_capital_sigma": out["unmodelled"],
        "check_mismatches": len(out["mismatches"]),
        "formal_regions": nf,
        "formal_regions_with_violations": nf_nontriv,
        "formal_mismatches": len(mf),
        "consistent_choices": nc,
        "consistent_choices_nontrivial": nc_nontriv,
        "consistent_mismatches": len(mc),
        "synthetic_fix_regions": nx,
        "synthetic_fix_outcomes": outcomes,
        "synthetic_fix_mismatches": len(mx),
        "distinct_values": len(values),
        "e2e_runs": len(e2e),
        "e2e_runs_that_changed_tokens": e2e_changed,
        "real_code_findings_all_properties": sorted({"%s|%s|%s" % k for k in out["findings"]} | {"%s|%s|%s" % f[:3] for f in e2e_findings}),
        "wall_s": round(time.time() - t0, 1),
    }
    return out["n"] + nf + nc + nx + len(e2e), out["nontrivial"] + nf_nontriv + nc_nontriv + nx + e2e_changed


def extra(res, tier, prop=None):
    """hook for the registered checks (C01 C03 C10 C19): the correspondence of the B-full case family (real
    case_utils.check_for_case_violation, formal-part analysis, consistent_* choices, the five real _fix_violation
    functions against the Lean functions) and the search on the real code with the same samples.  One run per
    (tree, tier, seed) is shared between the properties through the cache directory."""
    import hashlib
    import os
    import pickle

    import gen_tables

    prop = prop or res.prop
    key = hashlib.sha256(("%s/%s/%d" % (common.tree_hash(), tier, common.seed())).encode()).hexdigest()[:20]
    path = os.path.join(common.CACHE, "bcase-%s.pkl" % key)
    data = None
    if os.path.exists(path):
        try:
            data = pickle.load(open(path, "rb"))
        except Exception:  # noqa: BLE001
            data = None
    if data is None:
        tables, _ = gen_tables.generate()
        tmp = common.Result("BCASE", tier)
        collect = []
        n, nontriv = contribute(tmp, "BCASE", tier, tables, want_all=False, collect=collect)
        data = {"collect": collect, "breaks": tmp.proof_breaks, "coverage": tmp.coverage.get("bcase"), "n": n, "nontrivial": nontriv}
        os.makedirs(common.CACHE, exist_ok=True)
        with open(path + ".tmp%d" % os.getpid(), "wb") as f:
            pickle.dump(data, f)
        os.replace(path + ".tmp%d" % os.getpid(), path)
    for b in data["breaks"]:
        res.proof_break(b["what"], b["detail"])
    for p, site, kind, detail, rp in data["collect"]:
        if p == prop:
            res.fail(site, kind, detail, dict(rp, via="props_bcase"))
    res.coverage["layer_b_case_family"] = dict(data["coverage"] or {}, evaluations=data["n"], nontrivial=data["nontrivial"])


def run(prop, tier):
    res = common.Result(prop, tier)
    lean_prop = "C03" if prop == "BCASE" else prop
    ok_model, tables, nobl, ndis, thms = common.lean_phase(res, lean_prop)
    if prop == "BCASE":
        # the other property files that carry theorems of this family
        for extra in ("C01", "C02", "C07", "C10"):
            ok, outp, _ = common.lake_build(["VsgProofs.Properties." + extra])
            if not ok:
                for d in common.failed_decls(outp):
                    res.proof_break("theorem %s (%s:%s)" % (d["decl"], d["file"], d["line"]), d["message"])
            else:
                t2, ax, problems = common.audit_axioms(extra)
                mine = [t for t in t2 if ".bfull_case" in t or ".bfix_case" in t]
                for pr in problems:
                    res.proof_break("axiom audit", pr)
                nobl += len(mine)
                ndis += sum(1 for t in mine if t in ax and all(a in common.ALLOWED_AXIOMS for a in ax[t]))
                thms += [{"name": t, "axioms": ax.get(t)} for t in mine]
    if not ok_model:
        return res.finish(max(nobl, 1), 0, "lake build VsgModel driver VsgProofs.Properties.%s" % lean_prop, thms)
    n, nontriv = contribute(res, prop, tier, tables, want_all=(prop == "BCASE"))
    res.coverage.update(
        {
            "evaluations": n,
            "distinct_nontrivial": nontriv,
            "rule": res.coverage["bcase"]["rule"] + "; plus formal-part regions, consistent_* value choices, synthetic regions through the five real _fix_violation functions and phase-6-only real fix runs",
            "samples": [{"site": f["site"], "kind": f["kind"], "detail": f["detail"][:200]} for f in res.failures][:8] or [{"note": "no property failure on the real code"}],
        }
    )
    res.assumptions = [
        "the theorems quantify over the interpreter's str.lower/str.upper under explicit hypotheses (character-wise, fold-invariant: CharWise), discharged for ASCII; CPython violates them for the code points of Gen.upperMultiMap / lowerMultiMap ('ß' -> 'SS')",
        "the final-sigma rule of str.lower() is not modelled (driver answers `unmodelled` for strings with U+03A3)",
        "token extraction (get_tokens_matching …) and the region logic of the consistent_* analyses are not modelled: the theorems take the analysed region as given; `TokOk` (code token; for the two bit_string_literal rules a bit-string token) is a hypothesis, tied to the rule table by C03.case_rule_targets_are_code; extended identifiers are no longer excluded (the repaired analyses skip them: C03.bfull_case_extended_identifier_untouched)",
        "isinstance tests of the formal-part loop are modelled as class equality (the four classes have no subclasses)",
    ]
    return res.finish(max(nobl, 1), ndis, "cd lean && lake build VsgProofs.Properties.C03 VsgProofs.Properties.C01 VsgProofs.Properties.C02 VsgProofs.Properties.C07 VsgProofs.Properties.C10", thms)


def replay(prop, path):
    import gen_tables

    tables, _ = gen_tables.generate()
    d = json.load(open(path))
    if d.get("kind") == "no-failing-input-found":
        print(json.dumps(d, indent=1, ensure_ascii=False)[:3000])
        return 0
    inp = d["input"]
    if inp.get("kind") == "caseu":
        c = inp["check"]
        real = corr_case.real_check(c)
        f = corr_case.classify(c, real)
        print("check_for_case_violation(%r, case=%r, prefix=%r, suffix=%r, exceptions=%r) -> %s" % (c["value"], c["case"], c["prefixes"], c["suffixes"], c["exceptions"], real if not real.startswith("some s") else "value %r" % corr_case.dec_s(real.split(" ")[1][1:])))
        if f is not None and f[2] == d["failure"]:
            print("REPRODUCED property=%s site=%s kind=%s" % f)
            return 1
        return 0
    found, _ = judge_e2e(inp, tables)
    hit = [f for f in found if f[1] == d["site"] and f[2] == d["failure"]]
    for f in hit:
        print("REPRODUCED property=%s site=%s kind=%s %s" % f)
    return 1 if hit else 0
