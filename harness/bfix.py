"""
Layer B correspondence: every real (owner, params, action, old tokens) ↦ new tokens step of an
instrumented run whose `_fix_violation` owner is modelled in Lean is replayed through the Lean
function (driver mode `bfix`) and compared.
"""
import os

from leanio import Driver, enc_str, dec_str


def enc_val(v):
    if v is None:
        return "n"
    if isinstance(v, bool):
        return "b1" if v else "b0"
    if isinstance(v, int):
        return "i%d" % v
    if isinstance(v, str):
        return "s" + enc_str(v)
    if isinstance(v, dict):
        if "tok" in v and isinstance(v["tok"], list):
            return "t%d:%s" % (max(v["tok"][0], 0), enc_str(v["tok"][1]))
        if "cls" in v and len(v) == 1:
            return "i%d" % v["cls"]
        if "repr" in v and len(v) == 1:
            return "n"
        if "fn" in v and len(v) == 1 and isinstance(v["fn"], str):
            # a module-level function (multiline_structure's dAction["type"]): nested dict {fn: <name>}
            return "dfn~s" + enc_str(v["fn"])
        # nested dict (one level): d<key>~<val>|<key>~<val>, insertion order kept
        parts = []
        for k, x in v.items():
            e = enc_val(x)
            if any(c in e for c in "|~;=\t") or any(c in str(k) for c in "|~;=\t"):
                continue
            parts.append("%s~%s" % (k, e))
        return "d" + "|".join(parts)
    if isinstance(v, list):
        flat = [enc_val(x) for x in v if not isinstance(x, (list,))]
        return "l" + ",".join(x for x in flat if "," not in x and ";" not in x)
    return "n"


def enc_action(a, indents=None, attrs=None):
    """violation action: a dict as key/values; a plain string under the key `_str`; None as `_none` (and
    `__none__`, the key the whitespace family reads); any other object as `_other`; the indent levels of
    the old tokens (if harvested) under `_indents`"""
    if isinstance(a, str):
        d = {"_str": a}
    elif isinstance(a, dict):
        d = dict(a)
    elif a is None:
        d = {"_none": None, "__none__": True}
    else:
        d = {"_other": None}
    if indents is not None:
        d["_indents"] = [i if isinstance(i, int) and not isinstance(i, bool) else None for i in indents]
    if attrs:
        # `_tv`, `_ti`, `_iw`, `_a`: what the line-structure family reads from the violation itself
        d.update(attrs)
    return enc_kv(d)


def enc_kv(d):
    if d is None:
        return "__none__=b1"
    if not isinstance(d, dict):
        return ""
    parts = []
    for k, v in d.items():
        e = enc_val(v)
        if ";" in e or "=" in e or "\t" in e:
            continue
        parts.append("%s=%s" % (k, e))
    return ";".join(parts)


def enc_plain_toks(ts, ncls):
    return " ".join("0:%d:%s" % (t[1] if t[1] >= 0 else ncls, enc_str(t[2])) for t in ts)


def dec_plain_toks(s):
    out = []
    if s:
        for p in s.split(" "):
            c, _, v = p.partition(":")
            out.append((int(c), dec_str(v)))
    return out


def replay_records(records, ncls):
    """records: dicts owner, params, action, old (wire toks), new (wire toks), rule.
    returns (n_modelled, n_unmodelled_by_owner, mismatches)"""
    import subprocess

    from leanio import DRIVER

    payload = "".join("%s\t%s\t%s\t%s\n" % (r["owner"], enc_kv(r["params"]), enc_action(r["action"], r.get("indents"), r.get("attrs")), enc_plain_toks(r["old"], ncls)) for r in records)
    p = subprocess.run([DRIVER, "bfix"], input=payload, stdout=subprocess.PIPE, text=True, encoding="utf-8")
    replies = p.stdout.split("\n")
    modelled = 0
    unmodelled = {}
    mism = []
    for k, r in enumerate(records):
        line = replies[k] if k < len(replies) else "error no reply"
        if line == "unmodelled" or line.startswith("err unmodelled:"):
            # owner without a model, or an action kind / parameter type the model leaves out explicitly
            unmodelled[r["owner"]] = unmodelled.get(r["owner"], 0) + 1
            continue
        modelled += 1
        real_new = [(t[1] if t[1] >= 0 else ncls, t[2]) for t in r["new"]]
        if line.startswith("ok"):
            got = dec_plain_toks(line[3:])
            if got != real_new:
                mism.append({"owner": r["owner"], "rule": r["rule"], "action": r["action"], "old": [(t[1], t[2]) for t in r["old"]][:40], "real_new": real_new[:40], "lean_new": got[:40]})
        else:
            mism.append({"owner": r["owner"], "rule": r["rule"], "action": r["action"], "old": [(t[1], t[2]) for t in r["old"]][:40], "real_new": real_new[:40], "lean": line})
    return modelled, unmodelled, mism
