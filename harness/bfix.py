"""
Layer B correspondence: every real (owner, params, action, old tokens) ↦ new tokens step of an
instrumented run whose `_fix_violation` owner is modelled in Lean is replayed through the Lean
function (driver mode `bfix`) and compared.
"""
import os

from leanio import Driver, enc_str, dec_str


def enc_val(v):
    if v is None:
        return "n"
    if isinstance(v, bool):
        return "b1" if v else "b0"
    if isinstance(v, int):
        return "i%d" % v
    if isinstance(v, str):
        return "s" + enc_str(v)
    if isinstance(v, dict):
        if "tok" in v and isinstance(v["tok"], list):
            return "t%d:%s" % (max(v["tok"][0], 0), enc_str(v["tok"][1]))
        if "cls" in v:
            return "i%d" % v["cls"]
        return "n"
    if isinstance(v, list):
        flat = [enc_val(x) for x in v if not isinstance(x, (list,))]
        return "l" + ",".join(x for x in flat if "," not in x and ";" not in x)
    return "n"


def enc_kv(d):
    if not isinstance(d, dict):
        return ""
    parts = []
    for k, v in d.items():
        e = enc_val(v)
        if ";" in e or "=" in e or "\t" in e:
            continue
        parts.append("%s=%s" % (k, e))
    return ";".join(parts)


def enc_plain_toks(ts, ncls):
    return " ".join("0:%d:%s" % (t[1] if t[1] >= 0 else ncls, enc_str(t[2])) for t in ts)


def dec_plain_toks(s):
    out = []
    if s:
        for p in s.split(" "):
            c, _, v = p.partition(":")
            out.append((int(c), dec_str(v)))
    return out


def replay_records(records, ncls):
    """records: dicts owner, params, action, old (wire toks), new (wire toks), rule.
    returns (n_modelled, n_unmodelled_by_owner, mismatches)"""
    import subprocess

    from leanio import DRIVER

    payload = "".join("%s\t%s\t%s\t%s\n" % (r["owner"], enc_kv(r["params"]), enc_kv(r["action"]), enc_plain_toks(r["old"], ncls)) for r in records)
    p = subprocess.run([DRIVER, "bfix"], input=payload, stdout=subprocess.PIPE, text=True, encoding="utf-8")
    replies = p.stdout.split("\n")
    modelled = 0
    unmodelled = {}
    mism = []
    for k, r in enumerate(records):
        line = replies[k] if k < len(replies) else "error no reply"
        if line == "unmodelled":
            unmodelled[r["owner"]] = unmodelled.get(r["owner"], 0) + 1
            continue
        modelled += 1
        real_new = [(t[1] if t[1] >= 0 else ncls, t[2]) for t in r["new"]]
        if line.startswith("ok"):
            got = dec_plain_toks(line[3:])
            if got != real_new:
                mism.append({"owner": r["owner"], "rule": r["rule"], "action": r["action"], "old": [(t[1], t[2]) for t in r["old"]][:40], "real_new": real_new[:40], "lean_new": got[:40]})
        else:
            mism.append({"owner": r["owner"], "rule": r["rule"], "action": r["action"], "old": [(t[1], t[2]) for t in r["old"]][:40], "real_new": real_new[:40], "lean": line})
    return modelled, unmodelled, mism
