"""Feeds the steps of an instrumented fix run to the Lean trace checker."""
import vsgrun
from leanio import Driver, enc_toks, dec_str


def common_affixes(a, b):
    n = min(len(a), len(b))
    p = 0
    while p < n and a[p] == b[p]:
        p += 1
    s = 0
    while s < n - p and a[len(a) - 1 - s] == b[len(b) - 1 - s]:
        s += 1
    return p, s


def parse_reply(line):
    parts = line.split(" ")
    d = {"rule": parts[1]}
    for kv in parts[2:]:
        k, _, v = kv.partition("=")
        d[k] = v
    for k in ("ins", "del", "insC", "delC"):
        v = d.get(k, "-")
        if v == "-":
            d[k] = None
        else:
            inner = v[1:-1]
            d[k] = [dec_str(x) for x in inner.split(",")] if inner != "" else ([] if v == "[]" else [""])
    return d


def check_steps(initial_raw, steps, ci, ser, ncls):
    """initial_raw: raw snapshot before the first step.  Returns list of (step, reply dict) for
    every step that changed the file or had edits."""
    import subprocess

    from leanio import DRIVER

    lines = ["INIT\t" + enc_toks(vsgrun.wire(initial_raw, ci, ser), ncls)]
    out = []
    pending = []
    for st in steps:
        if st.before is None:
            continue
        if not st.changed and not st.edits:
            continue
        b = vsgrun.wire(st.before, ci, ser)
        a = vsgrun.wire(st.after, ci, ser)
        b3 = [x[:3] for x in b]
        a3 = [x[:3] for x in a]
        p, s = common_affixes(b3, a3)
        lines.append("STEP\t%s\t%s\t%d\t%d\t%d\t%d\t%d" % (st.rule, st.kind, st.fixable, st.sev_error, st.disabled, 1 if st.remap else 0, 1 if st.edits is not None else 0))
        for e in st.edits or []:
            ln = e["line"] if isinstance(e["line"], int) and e["line"] >= 0 else 0
            start = e["start"] if isinstance(e["start"], int) and e["start"] >= 0 else 0
            lines.append("EDIT\t%d\t%d\t%d\t%s" % (start, e["stop"] if e["stop"] is not None else start, ln, enc_toks(e["new"], ncls)))
        lines.append("AFTER\t%d\t%d\t%s" % (p, s, enc_toks(a3[p : len(a3) - s], ncls)))
        pending.append(st)
    if not pending:
        return out
    proc = subprocess.run([DRIVER, "trace"], input="\n".join(lines) + "\n", stdout=subprocess.PIPE, text=True, encoding="utf-8")
    replies = proc.stdout.split("\n")
    for k, st in enumerate(pending):
        line = replies[k] if k < len(replies) else ""
        if not line.startswith("R "):
            raise RuntimeError("driver: " + line)
        out.append((st, parse_reply(line)))
    return out
