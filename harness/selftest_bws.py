"""
Self-test of the BWS check logic: plausible bugs are injected into the REAL functions by monkeypatching (this
process only, /repo is never touched) and props_bws must report them as correspondence breaks (the Lean model
still describes the unpatched code) — and, where the bug breaks an effect on a real violation, as failures.
Run: /venv/bin/python -W ignore harness/selftest_bws.py
"""
import os
import sys

sys.path.insert(0, os.path.dirname(os.path.abspath(__file__)))
import common  # noqa: E402
import gen_inputs  # noqa: E402
import gen_tables  # noqa: E402
import props_bws as P  # noqa: E402
import sweep  # noqa: E402
import vsgrun  # noqa: E402

from vsg.rules import utils as rules_utils  # noqa: E402
from vsg.rules import whitespace_between_tokens as wbt  # noqa: E402
import vsg.rules.whitespace  # noqa: E402,F401
import vsg.rules.comment  # noqa: E402,F401

w001mod = sys.modules["vsg.rules.whitespace.rule_001"]
c100 = sys.modules["vsg.rules.comment.rule_100"]
nsp = sys.modules["vsg.rules.n_spaces_before_and_after_tokens"]

tables, _ = gen_tables.generate()
sweep._init()
ci = vsgrun.ClassIndex(tables)
ncls = len(tables["classes"])
kind = dict(ci.kind)
kind[ncls] = "code"
RESULTS = []


def expect(name, cond, info=""):
    RESULTS.append((name, bool(cond)))
    print("%-92s %s %s" % (name, "ok" if cond else "MISSED", info))


files = gen_inputs.corpus_files()[:12]
JOBS = [{"path": p, "variant": "messy", "vseed": i, "config": "default", "cseed": i, "toi_cap": 8} for i, p in enumerate(files)]
JOBS.append({"text": "architecture a of e is\n  signal s    : bit;\n  signal t: bit;   \n\n   \nbegin\n  a <= b&c;  --x\nend a;\n", "variant": "orig", "vseed": 0, "config": "default", "cseed": 0})


def harvest():
    recs, ans = [], []
    for j in JOBS:
        o = P.harvest_job(j)
        recs += o["recs"]
        ans += o["an"]
    return recs, ans


def check(recs, ans):
    res = common.Result("BWS", "selftest")
    st = P.evaluate(res, recs, ans, ncls, kind)
    return res, st


def synthetic():
    return P.run_synthetic(P.HAND_CASES, ci, ncls)


# 0. baseline ---------------------------------------------------------------------------------------
recs, ans = harvest()
res, st = check(recs, ans)
n, mism = synthetic()
expect("baseline: harvest replays, guards hold, analysis agrees, synthetic agrees", not res.proof_breaks and not res.failures and not mism and st["nm"] > 50 and st["n_an"] > 50, "%d records, %d regions, %d synthetic" % (st["nm"], st["n_an"], n))

# 1. insert_whitespace puts the blank one position too far (lands behind the right token) -----------
real_iw = rules_utils.insert_whitespace
rules_utils.insert_whitespace = lambda lTokens, index, num=1, sString=" ": real_iw(lTokens, index + 1 if isinstance(index, int) else index, num, sString)
recs, ans = harvest()
res, st = check(recs, ans)
n, mism = synthetic()
rules_utils.insert_whitespace = real_iw
expect("insert_whitespace off by one -> bfix mismatch on harvested real violations", any("harvest" in b["what"] for b in res.proof_breaks), len(res.proof_breaks))
expect("insert_whitespace off by one -> synthetic mismatch", len(mism) > 0, len(mism))

# 2. whitespace_between_tokens: the `number_of_spaces == 0` branch keeps lTokens[1] instead of lTokens[2]
real_fv = wbt.Rule._fix_violation


def bad_fv(self, oViolation):
    if self.number_of_spaces == 0:
        lTokens = oViolation.get_tokens()
        oViolation.set_tokens([lTokens[0], lTokens[1]])
    else:
        real_fv(self, oViolation)


wbt.Rule._fix_violation = bad_fv
n, mism = synthetic()
wbt.Rule._fix_violation = real_fv
expect("number_of_spaces==0 keeps the whitespace and drops the right token -> synthetic mismatch", any(m["case"].startswith("nos0") for m in mism), [m["case"] for m in mism][:4])

# 3. the analysis is repaired (`>N` expects N+1 everywhere): the model no longer describes it --------
real_ex = wbt.Rule.extract_expected_number_of_spaces


def good_ex(self):
    r = real_ex(self)
    if isinstance(self.number_of_spaces, str) and self.number_of_spaces.startswith(">") and not self.number_of_spaces.startswith(">="):
        return r + 1
    return r


wbt.Rule.extract_expected_number_of_spaces = good_ex
for j in JOBS:
    j["config"] = "selftest-gt"
real_named = gen_inputs.named_config
gen_inputs.named_config = lambda name, tables, rng: (None, [{"rule": {"global": {}, **{r["id"]: {"number_of_spaces": ">1"} for r in tables["rules"] if r["fixVOwner"] == P.WSB}}}]) if name == "selftest-gt" else real_named(name, tables, rng)
recs, ans = harvest()
res, st = check(recs, ans)
wbt.Rule.extract_expected_number_of_spaces = real_ex
expect("changed extract_expected_number_of_spaces -> analysis correspondence break", any("analyzeToi" in b["what"] for b in res.proof_breaks), len(res.proof_breaks))
# and on the unpatched code the same configuration shows the proved oscillation, outside the guard only
recs, ans = harvest()
res, st = check(recs, ans)
gen_inputs.named_config = real_named
for j in JOBS:
    j["config"] = "default"
expect("'>1' on the real code: still reported after the fix, only outside idemGuard, no break", st["n_osc"] > 0 and not res.proof_breaks, "%d oscillating, %d guarded" % (st["n_osc"], st["n_guarded"]))

# 4. whitespace_001 keeps the whitespace and drops the line break instead -----------------------------
real_rw = w001mod.remove_whitespace


def bad_rw(oViolation):
    lTokens = oViolation.get_tokens()
    oViolation.set_tokens(lTokens[:-1])


w001mod.remove_whitespace = bad_rw
recs, ans = harvest()
res, st = check(recs, ans)
w001mod.remove_whitespace = real_rw
expect("whitespace_001 drops the line break -> bfix mismatch", any("rule_001" in b["what"] for b in res.proof_breaks), len(res.proof_breaks))

# 5. comment_100 inserts the blank one character late -------------------------------------------------
real_c = c100.rule_100._fix_violation


def bad_c(self, oViolation):
    oViolation.get_action()["index"] += 1
    real_c(self, oViolation)


c100.rule_100._fix_violation = bad_c
n, mism = synthetic()
c100.rule_100._fix_violation = real_c
expect("comment_100 index off by one -> synthetic mismatch", any(m["case"].startswith("c100") for m in mism), [m["case"] for m in mism][:4])

# 6. n_spaces: the analysis asks to `adjust` a CODE token (guard violated on a real violation) ---------
real_cl = nsp.check_spaces_on_left_side


def bad_cl(lTokens, fStartLine, bNIsMinimum, dAction, iSpaces):
    dAction["left"] = {"action": "adjust"}


nsp.check_spaces_on_left_side = bad_cl
recs, ans = harvest()
res, st = check(recs, ans)
nsp.check_spaces_on_left_side = real_cl
expect("n_spaces adjusts a code token -> real violation outside the guard, notLayoutOnly failure", st["guard_false"].get("n_spaces_before_and_after_tokens", 0) > 0 and any(f["kind"] == "notLayoutOnly" for f in res.failures), "%r %d" % (st["guard_false"], len(res.failures)))

bad = [n for n, ok in RESULTS if not ok]
print("\n%d/%d self-tests passed" % (len(RESULTS) - len(bad), len(RESULTS)))
sys.exit(1 if bad else 0)
