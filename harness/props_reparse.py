"""
C08 — what VSG writes is what it would read          C09 — fixing converges

Decided by
  (1) the Lean theorems of VsgProofs/Properties/C08.lean (whitespace compositionality of the tokenizer
      model, `emit_retokenise_partial`, `report_after_fix_eq`) and C09.lean (`fixRun_fixpoint`,
      `no_cycle_of_fixpoint`, the cycle-detection lemmas),
  (2) correspondence: every emitted line of every explored fix run goes through the Lean driver mode
      `retok` (Lean's `create (flatten vals)` vs the real `tokens.create`, and `WellFormedLine vals` ⇒
      the real tokenizer gives `vals` back); for C09 the hypotheses of `fixRun_fixpoint` are evaluated
      on the first output with the real analyses (all hold ⇒ the second run must not change anything),
  (3) search on the REAL code: (file × re-layout variant × configuration) jobs, plain `rule_list.fix`,
      fresh parse of the emitted text, per-token comparison, report comparison, repeated fixing.
"""
import collections
import difflib
import json
import multiprocessing
import os
import random
import shutil
import subprocess
import sys
import tempfile
import time
import traceback

sys.path.insert(0, os.path.dirname(os.path.abspath(__file__)))

import common  # noqa: E402
import gen_inputs  # noqa: E402
import sweep  # noqa: E402

RULE = {
    "C08": "a job = one (corpus file, re-layout variant, configuration, fix_phase/skip_phase mode); the real rule_list.fix runs un-instrumented in memory, the emitted text is parsed afresh with the same configuration and compared token by token (class, value, indent, hierarchy) with the in-memory model; the report of the in-memory re-check (apply_rules' tail) is compared with the report of a fresh check of the emitted text; non-trivial = the fix changed the text; every emitted line is also re-tokenised by the Lean model (driver mode retok) and compared with tokens.create",
    "C09": "a job = one (corpus file, re-layout variant, configuration); the file is fixed up to five times, each time re-parsing the emitted text (what a user running `vsg --fix` repeatedly gets); x2 != x1 is a failure (later fixpoint or cycle recorded); the hypotheses of fixRun_fixpoint are evaluated on x1 with the real analyses; non-trivial = the first fix changed the text",
}

COMMENTISH = None  # set in _init
_W = sweep._W


# ------------------------------------------------------------------ jobs


def make_jobs(prop, tier):
    files = gen_inputs.corpus_files()
    sample = list(files)
    (random.Random("reparse-jobs-core-" + prop) if tier == "quick" else common.rng("reparse-jobs-" + prop)).shuffle(sample)
    seedv = common.seed()
    sv = sweep.core_seed if tier == "quick" else (lambda i: seedv)
    jobs = []
    cfgs = ["default", "jcl", "random", "all_enabled", "default", "random_jcl", "upper", "random"]
    variants = ["orig", "orig", "messy", "lines", "ws", "comments", "splitall", "tabs", "case", "usecomments", "flush", "glue"]
    if tier == "quick":
        n = 330
        for i in range(n):
            c = cfgs[i % len(cfgs)]
            j = {"path": sample[i % len(sample)], "variant": variants[(i // 2) % len(variants)], "vseed": sv(i) * 1000 + i, "config": c}
            if c.startswith("random"):
                j["cseed"] = sv(i) * 1000 + (i % 24)
            jobs.append(j)
    else:
        k = 0
        for p in files:
            for c in ("default", "jcl", "random", "all_enabled"):
                j = {"path": p, "variant": variants[k % len(variants)], "vseed": seedv * 1000 + k, "config": c}
                if c.startswith("random"):
                    j["cseed"] = seedv * 1000 + (k % 60)
                jobs.append(j)
                k += 1
    # directed: every rule's own test input; C08 with every rule enabled (and some flush left / with code tags),
    # C09 under the default configuration and with every rule enabled in turn
    for i, p in enumerate(sweep.directed_files(files)):
        if prop == "C08":
            jobs.append({"path": p, "variant": "orig", "vseed": 0, "config": "all_enabled", "directed": True})
            if i % 4 == 0:
                jobs.append({"path": p, "variant": ("flush", "codetags")[(i // 4) % 2], "vseed": sv(i) * 1000 + i, "config": ("all_enabled", "upper")[(i // 8) % 2], "directed": True})
        elif tier != "quick" or i % 2 == 0:
            jobs.append({"path": p, "variant": "orig", "vseed": 0, "config": ("default", "all_enabled")[(i // 2) % 2], "directed": True})
    for i, j in enumerate(jobs):
        if j["config"].startswith("random") and (prop == "C09" or i % 4 != 1):
            j["nozero"] = True
    if prop == "C08":
        # fix_phase / skip_phase modes on a part of the jobs (the full fix on all of them)
        modes = [(7, []), (7, []), (7, []), (1, []), (2, []), (3, []), (7, [4]), (5, []), (7, [1]), (7, [6])]
        for i, j in enumerate(jobs):
            fp, sk = modes[i % len(modes)] if not j.get("directed") else (7, [])
            j["fix_phase"] = fp
            j["skip_phase"] = sk
    return jobs


def job_config(job):
    """sweep.job_config, plus `nozero`: configured `number_of_spaces: 0` entries are dropped (zero
    blanks between two words glue them together: the output is rejected and nothing else is seen)"""
    import vsgrun

    if not job.get("nozero") or not job["config"].startswith("random"):
        return sweep.job_config(job)
    key = ("nozero", job["config"], job.get("cseed"))
    if key not in _W["configs"]:
        style, dicts = gen_inputs.named_config(job["config"], _W["tables"], random.Random("cfg/%s/%s" % (job["config"], job.get("cseed"))))
        for d in dicts:
            for rid, rd in d.get("rule", {}).items():
                if rd.get("number_of_spaces") in (0, "<=1"):
                    del rd["number_of_spaces"]
        cla, oc = vsgrun.make_config(style=style, conf_dicts=dicts)
        _W["configs"][key] = (cla, oc, style, dicts)
    return _W["configs"][key]


def _init():
    sweep._init()
    from vsg import parser as vparser
    from vsg.token import delimited_comment, pragma

    _W["commentish"] = (vparser.comment, delimited_comment.beginning, delimited_comment.text, delimited_comment.ending, vparser.preprocessor, pragma.pragma)
    _W["drv"] = None
    _W["allrules"] = None


def driver():
    if _W.get("drv") is None:
        from leanio import Driver

        _W["drv"] = Driver("retok")
    return _W["drv"]


# ------------------------------------------------------------------ model snapshots and comparison


def cname(t):
    c = type(t)
    return c.__module__ + "." + c.__qualname__


def sig(o):
    """(class, value, indent, hierarchy) of every real token; pseudo tokens are left out"""
    from vsg import parser as vparser

    return [(cname(t), t.get_value(), t.indent, t.hierarchy, tuple(sorted(set(map(str, getattr(t, "code_tags", None) or []))))) for t in o.lAllObjects if not isinstance(t, vparser.beginning_of_file)]


FIELDS = ("class", "value", "indent", "hierarchy")
LAYOUT_CLASSES = ("vsg.parser.whitespace", "vsg.parser.carriage_return", "vsg.parser.blank_line")


def code_first_diff(a, b):
    """the two signatures without their layout tokens (blanks, line breaks, blank-line markers), position by
    position: first code token whose class, or whose set of code tags, differs.  Independent of any drift the
    layout tokens may have (a stray blank_line marker shifts every later index of the full comparison).
    Returns (index in a, field, model class, reparsed class) or None; unequal lengths are left to the
    full comparison"""
    ia = [i for i, x in enumerate(a) if x[0] not in LAYOUT_CLASSES]
    ib = [i for i, x in enumerate(b) if x[0] not in LAYOUT_CLASSES]
    if len(ia) != len(ib):
        return None
    for i, j in zip(ia, ib):
        if a[i][0] != b[j][0]:
            return (i, "codeClass", a[i][0], b[j][0], j)
    for i, j in zip(ia, ib):
        if a[i][4] != b[j][4]:
            return (i, "code_tags", a[i][0], b[j][0], j)
    return None


def first_diff(a, b, upto=4):
    """(index, field) of the first position at which the two signatures differ in one of the first
    `upto` fields; a pure length difference is reported as ("length")"""
    n = min(len(a), len(b))
    for i in range(n):
        x, y = a[i], b[i]
        if x[:upto] != y[:upto]:
            for f in range(upto):
                if x[f] != y[f]:
                    return i, FIELDS[f]
    if len(a) != len(b):
        return n, "length"
    return None


def line_of(sg, i):
    return 1 + sum(1 for x in sg[:i] if x[0] == "vsg.parser.carriage_return")


def line_tokens_at(sg, i):
    """the tokens of the line that contains position i"""
    s = i
    while s > 0 and sg[s - 1][0] != "vsg.parser.carriage_return":
        s -= 1
    e = i
    while e < len(sg) and sg[e][0] != "vsg.parser.carriage_return":
        e += 1
    return sg[s:e]


def short(c):
    return c.replace("vsg.token.", "").replace("vsg.parser.", "parser.")


def describe_diff(a, b, d):
    i, field = d
    la = line_tokens_at(a, min(i, len(a) - 1)) if a else []
    lb = line_tokens_at(b, min(i, len(b) - 1)) if b else []
    xa = a[i] if i < len(a) else None
    xb = b[i] if i < len(b) else None
    return {
        "field": field,
        "token_index": i,
        "line": line_of(a, min(i, len(a))),
        "model_token": xa and (short(xa[0]), xa[1], xa[2], xa[3]),
        "reparsed_token": xb and (short(xb[0]), xb[1], xb[2], xb[3]),
        "model_line": [(short(x[0]), x[1]) for x in la][:40],
        "reparsed_line": [(short(x[0]), x[1]) for x in lb][:40],
        "lengths": [len(a), len(b)],
    }


class Hang(BaseException):
    pass


class time_limit:
    """the classifier of /repo can loop for ever on mutilated input (seen while cutting inputs):
    everything the minimiser evaluates runs under an interval timer"""

    def __init__(self, seconds):
        self.seconds = seconds

    def _raise(self, signum, frame):
        raise Hang()

    def __enter__(self):
        import signal

        self.t0 = time.time()
        self.old = signal.signal(signal.SIGALRM, self._raise)
        self.prev = signal.setitimer(signal.ITIMER_REAL, self.seconds)[0]

    def __exit__(self, *a):
        import signal

        signal.setitimer(signal.ITIMER_REAL, 0)
        signal.signal(signal.SIGALRM, self.old)
        if self.prev:
            # an enclosing limit: re-arm it with what is left of it
            signal.setitimer(signal.ITIMER_REAL, max(0.05, self.prev - (time.time() - self.t0)))
        return False


def guarded(pred, hangs, limit=8.0):
    """pred with a time limit; a hang counts as `not reproduced` and its input is kept"""

    def g(x, *rest):
        try:
            with time_limit(limit):
                return pred(x, *rest)
        except Hang:
            if len(hangs) < 2:
                hangs.append(x)
            return False

    return g


def try_parse(lines, cla, oc):
    """(vhdlFile | None, error text | None)"""
    import vsgrun
    from vsg import exceptions as vexc

    try:
        return vsgrun.parse(lines, cla, oc), None
    except Hang:
        raise
    except vexc.ClassifyError as e:
        return None, "ClassifyError: " + " ".join(str(e.message).split())[:300]
    except Exception as e:  # noqa: BLE001
        return None, "%s: %s" % (type(e).__name__, str(e)[:200])


def job_desc(job, style, dicts, text=None, **extra):
    d = sweep.describe(job, style, dicts, text)
    for k in ("fix_phase", "skip_phase"):
        if k in job:
            d[k] = job[k]
    d.update(extra)
    return d


def owner_of(rule):
    if "owner" not in _W:
        import json as _json

        import sweep as _sweep

        _t = _json.load(open(os.path.join(common.CACHE, "tables.json")))
        _W["owner"] = {r["id"]: _sweep.short_owner(r["fixVOwner"]) for r in _t["rules"]}
    return _W["owner"].get(rule, rule)


# ------------------------------------------------------------------ Lean: retok on emitted lines


def code_prefix_values(o):
    """per line of the in-memory model: the values of the tokens in front of the first comment-like
    token (a `--` comment is one token of the model but many of the tokenizer)"""
    from vsg import parser as vparser

    out = []
    cur = []
    closed = False
    for t in o.lAllObjects:
        if isinstance(t, vparser.carriage_return):
            out.append(cur)
            cur = []
            closed = False
            continue
        if closed or isinstance(t, vparser.beginning_of_file):
            continue
        if isinstance(t, _W["commentish"]):
            closed = True
            continue
        if isinstance(t, vparser.blank_line):
            continue
        cur.append(t.get_value())
    if cur:
        out.append(cur)
    return out


def lean_retok(lines_vals, stats, fails, desc):
    """every distinct emitted line through the driver: Lean's create(flatten vals) against the real
    tokens.create (correspondence), and WellFormedLine ⇒ the real tokenizer returns vals"""
    from leanio import dec_str, enc_str
    from vsg import tokens

    seen = _W.setdefault("retok_seen", set())
    todo = []
    for vals in lines_vals:
        if not vals:
            continue
        key = tuple(vals)
        if key in seen:
            continue
        if len(seen) < 200000:
            seen.add(key)
        if any(v == "" for v in vals):
            stats["emptyValue"] += 1
        todo.append(vals)
    if not todo:
        return
    drv = driver()
    for vals in todo:
        drv.send(" ".join(enc_str(v) if v != "" else "e" for v in vals))
    drv.flush()
    for vals in todo:
        reply = drv.read()
        parts = reply.split("\t")
        if len(parts) != 4 or parts[0] != "R":
            raise RuntimeError("retok driver: %r" % reply[:200])
        wf, same = parts[1] == "1", parts[2] == "1"
        lean_toks = [dec_str(x) for x in parts[3].split(" ")] if parts[3] != "" else []
        text = "".join(vals)
        real = [t for t in tokens.create(text)]
        stats["lines"] += 1
        if lean_toks != real:
            stats["corrMismatch"] += 1
            fails.append(("PB", "correspondence Lex.create vs tokens.create", {"text": text, "lean": lean_toks, "real": real}))
        if (real == vals) != same:
            stats["corrMismatch"] += 1
            fails.append(("PB", "driver retok `same` flag disagrees with the real tokenizer", {"vals": vals, "real": real, "same": same}))
        if wf:
            stats["wf"] += 1
            if real != vals:
                fails.append(("PB", "emit_retokenise_partial: WellFormedLine holds but tokens.create(flatten vals) != vals", {"vals": vals, "real": real}))
        elif real == vals:
            stats["notWfButSame"] += 1
        if real != vals:
            stats["notSame"] += 1


# ------------------------------------------------------------------ C08


def localise(lines, cla, oc, job, want_field):
    """first step of an instrumented run after which the fresh parse of the emitted text differs from
    the in-memory model in class/value (or is rejected).  For indent/hierarchy differences: the first
    step at or after the last indent refresh (or the refresh itself).
    Returns (rule id, detail)"""
    import vsgrun

    o = vsgrun.parse(lines, cla, oc)
    rl = vsgrun.new_rule_list(o, oc)
    upto = 2 if want_field in ("class", "value", "length", "rejected", "codeClass", "code_tags") else 4
    refreshes = job.get("fix_phase", 7) >= 4 and 4 not in (job.get("skip_phase") or [])
    # indents are expected to be stale until the refresh in front of phase 4
    state = {"found": None, "armed": not refreshes}
    real_sti = o.set_token_indent

    def check(rule):
        if state["found"] is not None:
            return
        o2, err = try_parse(o.get_lines()[1:], cla, oc)
        if o2 is None:
            state["found"] = (rule, {"rejected": err}, "rejected")
            return
        if want_field == "rejected":
            return
        a, b = sig(o), sig(o2)
        if want_field in ("codeClass", "code_tags"):
            cd = code_first_diff(a, b)
            if cd is not None and cd[1] == want_field:
                state["found"] = (rule, {"field": want_field, "token_index": cd[0], "line": line_of(a, cd[0]), "model_token": (short(a[cd[0]][0]), a[cd[0]][1], a[cd[0]][4]), "reparsed_token": (short(b[cd[4]][0]), b[cd[4]][1], b[cd[4]][4]), "model_line": [(short(x[0]), x[1]) for x in line_tokens_at(a, cd[0])][:40]}, want_field)
            return
        d = first_diff(a, b, upto if state["armed"] else 2)
        if d is not None:
            state["found"] = (rule, describe_diff(a, b, d), d[1])

    def set_token_indent():
        r = real_sti()
        if refreshes and not state["armed"]:
            state["armed"] = True
            if upto == 4:
                check("<set_token_indent>")
        return r

    o.set_token_indent = set_token_indent

    def on_step(st):
        if st.changed:
            check(st.rule)

    steps, exc, ser = vsgrun.instrumented_fix(o, rl, _W["ci"], fix_phase=job.get("fix_phase", 7), skip_phase=job.get("skip_phase"), on_step=on_step)
    if state["found"] is None:
        return None, None, None
    return state["found"]


def report_key(rep):
    return sorted((r, l if isinstance(l, int) else -1, s if isinstance(s, str) else repr(s)) for r, l, s in rep)


def zero_spaces_configured(rl, rule_id):
    for r in rl.rules:
        if r.unique_id == rule_id:
            n = getattr(r, "number_of_spaces", None)
            return n in (0, "0", "<=1", "<=0", ">=0")
    return False


def c08_eval(lines, cla, oc, fp=7, sk=(), disabled=None, want_model=False):
    """the C08 observation on one input, without localisation.
    status: rejected | parsecrash | fixcrash | reparse_rejected | checkcrash | ok"""
    import vsgrun

    ev = {"status": "ok", "d": None, "field": None, "report": None, "report_all_phases": None}
    o, err = try_parse(lines, cla, oc)
    if o is None:
        ev["status"] = "rejected" if err.startswith("ClassifyError") else "parsecrash"
        return ev
    rl = vsgrun.new_rule_list(o, oc)
    if disabled:
        for r in rl.rules:
            if r.unique_id in disabled:
                r.disable = True
    ids0 = set(map(id, o.lAllObjects))
    try:
        rl.fix(fp, list(sk), None)
    except Exception as e:  # noqa: BLE001 - C19's business
        ev["status"] = "fixcrash"
        ev["error"] = "%s: %s" % (type(e).__name__, str(e)[:100])
        return ev
    text1 = o.get_lines()[1:]
    ev["text1"] = text1
    ev["changed"] = text1 != list(lines)
    ev["fired"] = [r.unique_id for r in rl.rules if r.had_violations and r.fixable and not r.disable]
    a = sig(o)
    ev["tokens"] = len(a)
    if want_model:
        ev["o"], ev["rl"] = o, rl
    o2, err = try_parse(text1, cla, oc)
    if o2 is None:
        ev["status"] = "reparse_rejected"
        ev["error"] = err
        return ev
    b = sig(o2)
    d = first_diff(a, b, 4)
    ev["d"] = d
    ev["field"] = d and ("class" if d[1] == "length" else d[1])
    ev["a"], ev["b"] = a, b
    ev["code_d"] = code_first_diff(a, b)
    if ev["code_d"] and ev["code_d"][1] == "code_tags":
        from vsg import parser as vparser

        toks = [t for t in o.lAllObjects if not isinstance(t, vparser.beginning_of_file)]
        cd = ev["code_d"]
        ma, mb = set(a[cd[0]][4]), set(b[cd[4]][4])
        ev["code_tags_how"] = ("new" if id(toks[cd[0]]) not in ids0 else "old") + (":missing" if ma < mb else ":extra" if ma > mb else ":other")
    try:
        rl2 = vsgrun.new_rule_list(o2, oc)
        if disabled:
            for r in rl2.rules:
                if r.unique_id in disabled:
                    r.disable = True
        # `-ap` is refused together with `--fix`: what the fix run prints is check_rules(bAllPhases=False);
        # the all-phases comparison is recorded as information only
        for ap, key in ((False, "report"), (True, "report_all_phases")):
            r1 = report_key(vsgrun.check_report(o, rl, all_phases=ap, skip_phase=list(sk)))
            r2 = report_key(vsgrun.check_report(o2, rl2, all_phases=ap, skip_phase=list(sk)))
            if not ap:
                ev["report_size"] = len(r1)
            if r1 != r2:
                c1, c2 = collections.Counter(r1), collections.Counter(r2)
                only_mem = sorted((c1 - c2).elements())
                only_fresh = sorted((c2 - c1).elements())
                ev[key] = {"only_in_memory_report": only_mem[:6], "only_in_fresh_report": only_fresh[:6], "rules": sorted({x[0] for x in only_mem + only_fresh})[:12], "n": [len(only_mem), len(only_fresh)]}
    except Exception as e:  # noqa: BLE001
        ev["status"] = "checkcrash"
        ev["error"] = "%s: %s" % (type(e).__name__, str(e)[:100])
        return ev
    return ev


def c08_kinds(ev, full):
    """the failure kinds an observation amounts to (without site)"""
    ks = []
    if ev["status"] == "reparse_rejected":
        return ["fixedTextRejected"]
    if ev["status"] not in ("ok", "checkcrash"):
        return []
    f = ev["field"]
    # which token classes meet at the first difference is part of the identity: a stray blank-line marker and a
    # keyword classified differently are different findings even when the same base class produced both
    what = ""
    if f and ev.get("d") and ev.get("a") is not None:
        i = ev["d"][0]
        xa = short(ev["a"][i][0]) if i < len(ev["a"]) else "-"
        xb = short(ev["b"][i][0]) if i < len(ev["b"]) else "-"
        what = ":%s->%s" % (xa, xb) if f == "class" else ":%s" % xa
    if f in ("class", "value"):
        ks.append("modelDiffersFromReparse:" + f + what)
    elif f in ("indent", "hierarchy"):
        if full:
            ks.append("modelDiffersFromReparse:" + f + what)
        elif ev["report"]:
            ks.append("staleIndentReport")
    elif ev["report"]:
        ks.append("reportDiffersSameModel")
    cd = ev.get("code_d")
    if cd:
        if cd[1] == "codeClass":
            ks.append("modelDiffersFromReparse:codeClass:%s->%s" % (short(cd[2]), short(cd[3])))
        else:
            ks.append("modelDiffersFromReparse:code_tags:" + ev.get("code_tags_how", "?"))
    return ks


def run_c08(job):
    try:
        with time_limit(300.0):
            return run_c08_inner(job)
    except Hang:
        return {"job": {k: v for k, v in job.items() if k != "text"}, "status": "hang", "failures": [], "pbs": []}
    except Exception:  # noqa: BLE001 - an error of the harness, never a violation
        return {"job": {k: v for k, v in job.items() if k != "text"}, "status": "harness", "error": traceback.format_exc()[-900:], "failures": [], "pbs": []}


def run_c08_inner(job):
    import vsgrun

    out = {"job": {k: v for k, v in job.items() if k != "text"}, "status": "ok", "failures": [], "pbs": [], "changed": False, "fired": {}, "retok": {}, "report_cmp": 0, "tokens": 0, "stale_indent": 0}
    cla, oc, style, dicts = job_config(job)
    text = sweep.job_text(job)
    lines = vsgrun.text_to_lines(text)
    fp, sk = job.get("fix_phase", 7), list(job.get("skip_phase") or [])
    full = fp == 7 and not sk
    ev = c08_eval(lines, cla, oc, fp, sk, job.get("disabled"), want_model=True)
    out["status"] = ev["status"] if ev["status"] != "reparse_rejected" else "ok"
    if "error" in ev:
        out["error"] = ev["error"]
    if ev["status"] not in ("ok", "reparse_rejected", "checkcrash"):
        return out
    out["changed"] = ev["changed"]
    out["fired"] = {r: 1 for r in ev["fired"]}
    out["tokens"] = ev["tokens"]
    out["report_cmp"] = 1 if ev["status"] == "ok" else 0

    def desc(**kw):
        return job_desc(job, style, dicts, text, **kw)

    # ---- T layer: every emitted line through the Lean tokenizer model
    if job.get("lean", True):
        stats = collections.Counter()
        pbs = []
        lean_retok(code_prefix_values(ev["o"]), stats, pbs, None)
        out["retok"] = dict(stats)
        for _, what, det in pbs[:3]:
            out["pbs"].append({"what": what, "detail": det})

    if ev["status"] == "ok" and ev["field"] in ("indent", "hierarchy") and not full:
        out["stale_indent"] = 1
        out["stale_indent_latent"] = 1 if (ev["report_all_phases"] and not ev["report"]) else 0
    for kind in c08_kinds(ev, full):
        det = {}
        site = "rule_list.fix"
        if kind == "fixedTextRejected":
            rule, ldet, lfield = localise(lines, cla, oc, job, "rejected")
            det = {"error": ev["error"], "first_step_after_which_the_text_is_rejected": rule, "at_that_step": ldet}
            if rule:
                site = owner_of(rule)
                if zero_spaces_configured(ev["rl"], rule):
                    kind = "fixedTextRejected:zeroSpacesConfigured"
        elif kind.startswith("modelDiffersFromReparse:codeClass") or kind.startswith("modelDiffersFromReparse:code_tags"):
            rule, ldet, lfield = localise(lines, cla, oc, job, ev["code_d"][1])
            if rule is None:
                rule, ldet = "rule_list.fix", None
            site = owner_of(rule) if not rule.startswith("<") and rule != "rule_list.fix" else rule.strip("<>")
            det = dict(ldet or {})
            det["rule"] = rule
            if ev["report"]:
                det["report_difference"] = ev["report"]
        elif kind.startswith("modelDiffersFromReparse"):
            rule, ldet, lfield = localise(lines, cla, oc, job, ev["d"][1])
            if rule is None:
                rule, ldet = "rule_list.fix", None
            site = owner_of(rule) if not rule.startswith("<") and rule != "rule_list.fix" else rule.strip("<>")
            det = dict(ldet or {})
            det["rule"] = rule
            det["final_first_difference"] = describe_diff(ev["a"], ev["b"], ev["d"])
            if ev["report"]:
                det["report_difference"] = ev["report"]
            if ev["report_all_phases"]:
                det["report_difference_with_all_phases"] = ev["report_all_phases"]
        elif kind == "staleIndentReport":
            det = {"first_difference": describe_diff(ev["a"], ev["b"], ev["d"]), "report_difference": ev["report"]}
        else:
            det = {"report_difference": ev["report"]}
        out["failures"].append({"site": site, "kind": kind, "detail": det, "input": desc()})
    return out


# ------------------------------------------------------------------ minimisation (stage 2)


def ddmin(items, test, deadline):
    """smallest-ish sublist of `items` for which test(sublist) is still True (test(items) is True)"""
    n = 2
    items = list(items)
    while len(items) >= 2 and time.time() < deadline:
        chunk = max(1, len(items) // n)
        subsets = [items[i : i + chunk] for i in range(0, len(items), chunk)]
        reduced = False
        for s in subsets:
            if time.time() > deadline:
                break
            if len(s) < len(items) and test(s):
                items = s
                n = 2
                reduced = True
                break
        if not reduced:
            for s in subsets:
                if time.time() > deadline:
                    break
                comp = [x for x in items if x not in s]
                if comp and len(comp) < len(items) and test(comp):
                    items = comp
                    n = max(n - 1, 2)
                    reduced = True
                    break
        if not reduced:
            if n >= len(items):
                break
            n = min(len(items), n * 2)
    return items


def one_minimal(items, test, deadline):
    items = list(items)
    for x in list(items):
        if time.time() > deadline:
            break
        rest = [y for y in items if y is not x]
        if rest and test(rest):
            items = rest
    return items


def line_classes(o):
    from vsg import parser as vparser

    out, cur = [], []
    for t in o.lAllObjects:
        if isinstance(t, vparser.carriage_return):
            out.append(tuple(cur))
            cur = []
        elif not isinstance(t, (vparser.whitespace, vparser.beginning_of_file)):
            cur.append(type(t))
    if cur:
        out.append(tuple(cur))
    return out


CHUNK_END_WORDS = ("begin", "is", "then", "else", "generate", "loop", "record", "units", "body", "protected", "process", "block")


def statement_chunks(lines):
    """groups of consecutive line indexes that end where a statement (or a structural keyword
    line) ends: cutting whole chunks removes whole statements"""
    chunks, cur = [], []
    for i, l in enumerate(lines):
        code = l.split("--")[0].strip().lower()
        cur.append(i)
        last = code.replace("(", " ").replace(")", " ").split()[-1:] or [""]
        if code == "" or code.endswith(";") or last[0] in CHUNK_END_WORDS:
            chunks.append(cur)
            cur = []
    if cur:
        chunks.append(cur)
    return chunks


def cut_lines(lines, cla, oc, pred, deadline):
    """ddmin over statement chunks; a candidate is admissible only if every kept line is classified
    as it was in the full file (whole statements go, no statement is mutilated)"""
    o, err = try_parse(lines, cla, oc)
    if o is None:
        return list(lines)
    orig = line_classes(o)
    if len(orig) != len(lines):
        return list(lines)

    def test0(chunks):
        idxs = [i for c in chunks for i in c]
        cand = [lines[i] for i in idxs]
        o2, err = try_parse(cand, cla, oc)
        if o2 is None:
            return False
        if line_classes(o2) != [orig[i] for i in idxs]:
            return False
        return pred(cand)

    hangs = []
    test = guarded(test0, hangs)
    chunks = ddmin(statement_chunks(lines), test, deadline)
    if len(chunks) <= 40:
        chunks = one_minimal(chunks, test, deadline + 5)
    if hangs:
        _W.setdefault("hangs", []).append([lines[i] for c in hangs[0] for i in c])
    return [lines[i] for c in chunks for i in c]


def all_rule_ids(cla, oc):
    import vsgrun

    o = vsgrun.parse(["entity e is", "end entity e;"], cla, oc)
    rl = vsgrun.new_rule_list(o, oc)
    return [r.unique_id for r in rl.rules if not r.disable and r.phase not in (0, None)], [r.unique_id for r in rl.rules]


def minimise_rules(cand, allids, test, budget):
    """1-minimal subset of `cand` such that test(disabled = all others) holds; None if not reproduced"""
    t0 = time.time()
    if not test(set(allids) - set(cand)):
        return None
    keep = ddmin(cand, lambda k: test(set(allids) - set(k)), t0 + budget * 0.7)
    keep = one_minimal(keep, lambda k: test(set(allids) - set(k)), t0 + budget)
    return keep


def disable_config(enabled, keep):
    return {"rule": {i: {"disable": True} for i in sorted(enabled) if i not in keep}}


def minimise_c08(fl):
    try:
        return minimise_c08_inner(fl)
    except Exception:  # noqa: BLE001
        return {"minimise_error": traceback.format_exc()[-600:]}


def minimise_c08_inner(fl, budget=40.0):
    import vsgrun

    if "tables" not in _W:
        _init()
    inp = fl["input"]
    kind = fl["kind"].split(":zeroSpaces")[0]
    fp, sk = inp.get("fix_phase", 7), list(inp.get("skip_phase") or [])
    full = fp == 7 and not sk
    cla, oc = vsgrun.make_config(style=inp.get("style"), conf_dicts=inp.get("config_dicts") or [])
    lines = vsgrun.text_to_lines(inp["text"])
    enabled, allids = all_rule_ids(cla, oc)
    t0 = time.time()

    def pred0(ls, disabled):
        ev = c08_eval(ls, cla, oc, fp, sk, disabled)
        return kind in c08_kinds(ev, full)

    pred = guarded(pred0, [], 20.0)

    ev = c08_eval(lines, cla, oc, fp, sk, None)
    if kind not in c08_kinds(ev, full):
        return {"minimise": "not reproduced with the recorded configuration"}
    cand = list(ev.get("fired") or [])
    for k in ("report", "report_all_phases"):
        cand += [r for r in ((ev.get(k) or {}).get("rules") or []) if r not in cand]
    cand = cand or enabled
    keep = minimise_rules(cand, allids, lambda dis: pred(lines, dis), budget * 0.4)
    if keep is None:
        keep = minimise_rules(enabled, allids, lambda dis: pred(lines, dis), budget * 0.4) or enabled
    disabled = set(allids) - set(keep)
    cut = cut_lines(lines, cla, oc, lambda ls: pred(ls, disabled), t0 + budget)
    conf = disable_config(enabled, keep)
    cla2, oc2 = vsgrun.make_config(style=inp.get("style"), conf_dicts=list(inp.get("config_dicts") or []) + [conf])
    ev2 = c08_eval(cut, cla2, oc2, fp, sk, None)
    confirmed = kind in c08_kinds(ev2, full)
    site2 = None
    if confirmed and kind != "staleIndentReport" and kind != "reportDiffersSameModel":
        _W["configs"][("min", None)] = (cla2, oc2, inp.get("style"), None)
        rule, ldet, lfield = localise(cut, cla2, oc2, {"fix_phase": fp, "skip_phase": sk}, "rejected" if kind.startswith("fixedTextRejected") else ev2["d"][1])
        site2 = owner_of(rule) if rule and not rule.startswith("<") else (rule or "").strip("<>")
    m = {
        "minimal_rules": sorted(keep) if len(keep) <= 12 else "%d rules" % len(keep),
        "cut_input": cut if len(cut) <= 60 else None,
        "cut_lines": len(cut),
        "confirmed_through_config_file": confirmed,
        "site_on_cut_input": site2,
        "emitted_text_on_cut_input": ev2.get("text1") if len(cut) <= 40 else None,
        "minimise_wall": round(time.time() - t0, 1),
    }
    if confirmed and ev2.get("d") is not None:
        m["first_difference_on_cut_input"] = describe_diff(ev2["a"], ev2["b"], ev2["d"])
    if confirmed and ev2.get("report"):
        m["report_difference_on_cut_input"] = ev2["report"]
    if confirmed and ev2["status"] == "reparse_rejected":
        m["error_on_cut_input"] = ev2["error"]
    return m


# ------------------------------------------------------------------ C09


def fix_text(lines, cla, oc, disabled=None):
    """one `vsg --fix` in memory: (status, lines after, rule_list, vhdlFile)"""
    import vsgrun

    o, err = try_parse(lines, cla, oc)
    if o is None:
        return "rejected", None, None, None
    rl = vsgrun.new_rule_list(o, oc)
    if disabled is not None:
        for r in rl.rules:
            if r.unique_id in disabled:
                r.disable = True
    try:
        rl.fix(7, [], None)
    except Exception:  # noqa: BLE001
        return "crash", None, rl, o
    return "ok", o.get_lines()[1:], rl, o


def iterate(lines, cla, oc, n=5, disabled=None):
    """x0, x1 … (up to n fixes); returns (list of texts, status of the last attempt)"""
    xs = [list(lines)]
    status = "ok"
    for _ in range(n):
        status, nxt, rl, o = fix_text(xs[-1], cla, oc, disabled)
        if status != "ok":
            break
        xs.append(nxt)
        if len(xs) >= 3 and xs[-1] == xs[-2]:
            break
        if xs[-1] in xs[1:-1]:
            break
    return xs, status


def classify_sequence(xs):
    """verdict on x0, x1, …: ("converged", k) — x_{k+1} == x_k first at k (k >= 1);
    ("cycle", (n, m)) — x_n == x_m, n < m, no two consecutive equal;  ("unstable", len)"""
    for k in range(1, len(xs) - 1):
        if xs[k + 1] == xs[k]:
            return "converged", k
    for m in range(2, len(xs)):
        for n in range(1, m - 1):
            if xs[n] == xs[m]:
                return "cycle", (n, m)
    if len(xs) < 3:
        return "short", len(xs)
    return "unstable", len(xs) - 1


def second_run_changers(x1, cla, oc, disabled=None):
    """instrumented fix of x1: the rules whose step changed the token list"""
    import vsgrun

    o = vsgrun.parse(x1, cla, oc)
    rl = vsgrun.new_rule_list(o, oc)
    if disabled is not None:
        for r in rl.rules:
            if r.unique_id in disabled:
                r.disable = True
    steps, exc, ser = vsgrun.instrumented_fix(o, rl, _W["ci"])
    return [st.rule for st in steps if st.changed]


def small_diff(a, b, n=14):
    d = [l for l in difflib.unified_diff(a, b, "x1", "x2", lineterm="", n=0) if not l.startswith(("---", "+++"))]
    return d[:n]


def hypotheses(x1, cla, oc):
    """the hypotheses of C09.fixRun_fixpoint on the first output, with the real analyses"""
    import vsgrun
    from vsg import severity
    from vsg.vhdlFile import utils as vutils

    o = vsgrun.parse(x1, cla, oc)
    rl = vsgrun.new_rule_list(o, oc)
    failing = []
    nrules = 0
    # post-normalisation is the identity on the parsed model
    before = [(cname(t), t.get_value()) for t in o.lAllObjects]
    after = [(cname(t), t.get_value()) for t in vutils.fix_trailing_whitespace(vutils.fix_blank_lines(list(o.lAllObjects)))]
    post_ok = before == after
    for phase in range(1, 8):
        for sub in range(0, 6):
            for r in rl.rules:
                if r.phase != phase or r.subphase != sub or r.disable:
                    continue
                if r.severity.type != severity.error_type or not r.fixable:
                    continue
                nrules += 1
                if phase == 4 and sub == 0:
                    pass
                try:
                    r.violations = []
                    r.analyze(o)
                except Exception:  # noqa: BLE001
                    failing.append(r.unique_id + "!raised")
                    continue
                if r.violations:
                    failing.append(r.unique_id)
    return {"post_identity": post_ok, "rules_with_fixable_violations": failing, "rules_evaluated": nrules}


def run_c09(job):
    try:
        with time_limit(300.0):
            return run_c09_inner(job)
    except Hang:
        return {"job": {k: v for k, v in job.items() if k != "text"}, "status": "hang", "failures": [], "pbs": []}
    except Exception:  # noqa: BLE001
        return {"job": {k: v for k, v in job.items() if k != "text"}, "status": "harness", "error": traceback.format_exc()[-900:], "failures": [], "pbs": []}


def run_c09_inner(job):
    import vsgrun

    out = {"job": {k: v for k, v in job.items() if k != "text"}, "status": "ok", "failures": [], "pbs": [], "changed": False, "fired": {}, "verdict": None}
    cla, oc, style, dicts = job_config(job)
    text = sweep.job_text(job)
    lines = vsgrun.text_to_lines(text)
    o, err = try_parse(lines, cla, oc)
    if o is None:
        out["status"] = "rejected" if err.startswith("ClassifyError") else "parsecrash"
        return out
    st, x1, rl, o = fix_text(lines, cla, oc)
    if st != "ok":
        out["status"] = "fixcrash"
        return out
    out["changed"] = x1 != lines
    out["fired"] = {r.unique_id: 1 for r in rl.rules if r.had_violations and r.fixable and not r.disable}
    st2, x2, rl2, o2 = fix_text(x1, cla, oc)
    if st2 == "rejected":
        out["status"] = "output_rejected"  # C08's finding
        return out
    if st2 != "ok":
        out["status"] = "fixcrash2"
        return out
    hyp = None
    if job.get("hyp", True):
        hyp = hypotheses(x1, cla, oc)
        out["hyp_all"] = hyp["post_identity"] and not hyp["rules_with_fixable_violations"]
    if x2 == x1:
        out["verdict"] = "converged1"
        return out
    # continue: x3 … x5
    xs = [lines, x1, x2]
    status = "ok"
    while len(xs) < 6:
        s, nxt, _, _ = fix_text(xs[-1], cla, oc)
        if s != "ok":
            status = s
            break
        xs.append(nxt)
        if xs[-1] == xs[-2] or xs[-1] in xs[1:-1]:
            break
    verdict, where = classify_sequence(xs)
    out["verdict"] = {"converged": "converged%d" % (where if verdict == "converged" else 0), "cycle": "cycle", "unstable": "never", "short": "never"}[verdict]
    changers = second_run_changers(x1, cla, oc)
    kind = "cycle" if verdict == "cycle" else "secondFixChanges"
    # the smallest set of rules that, alone, still does not converge on this input
    key = ("ids", job["config"], job.get("cseed"))
    if key not in _W:
        _W[key] = all_rule_ids(cla, oc)
    enabled, allids = _W[key]
    fired = [r.unique_id for r in rl.rules if r.had_violations and not r.disable]
    fired += [r.unique_id for r in rl2.rules if r.had_violations and not r.disable and r.unique_id not in fired]
    fired += [c for c in changers if c not in fired and not c.startswith("<")]

    test = guarded(lambda dis: not_converging(lines, cla, oc, dis), [], 20.0)
    keep = minimise_rules(fired, allids, test, 12.0) if fired else None
    if keep is None:
        keep = minimise_rules(enabled, allids, test, 20.0)
    if keep is not None and len(keep) <= 4:
        site = "+".join(sorted(keep))
    else:
        site = owner_of(changers[0]) if changers else "rule_list.fix"
    det = {
        "minimal_rules": sorted(keep) if keep is not None else None,
        "rules_changing_in_second_run": changers[:12],
        "sequence": "%s %r%s" % (verdict, where, "" if status == "ok" else " (then %s)" % status),
        "diff_x1_x2": small_diff(x1, x2),
        "hypotheses_of_fixRun_fixpoint_on_x1": hyp,
    }
    if hyp is not None and out["hyp_all"]:
        out["pbs"].append({"what": "C09.fixRun_fixpoint: every hypothesis holds on x1 (no enabled error-type fixable rule reports a violation, post-normalisation is the identity) and the second fix still changes the file", "detail": {"job": out["job"], "changers": changers[:6], "diff": small_diff(x1, x2)}})
    out["failures"].append({"site": site, "kind": kind, "detail": det, "input": job_desc(job, style, dicts, text)})
    return out


# ------------------------------------------------------------------ C09 minimisation


def not_converging(lines, cla, oc, disabled):
    """the C09 failure predicate: accepted, fixable twice, and x2 != x1"""
    s1, x1, _, _ = fix_text(lines, cla, oc, disabled)
    if s1 != "ok":
        return False
    s2, x2, _, _ = fix_text(x1, cla, oc, disabled)
    if s2 != "ok":
        return False
    return x2 != x1


def minimise_c09(fl):
    """fl: a failure record with `input` and detail.minimal_rules.  Cuts the input by lines."""
    try:
        return minimise_c09_inner(fl)
    except Exception:  # noqa: BLE001
        return {"minimise_error": traceback.format_exc()[-600:]}


def minimise_c09_inner(fl, budget=35.0):
    import vsgrun

    if "tables" not in _W:
        _init()
    inp = fl["input"]
    cla, oc = vsgrun.make_config(style=inp.get("style"), conf_dicts=inp.get("config_dicts") or [])
    lines = vsgrun.text_to_lines(inp["text"])
    enabled, allids = all_rule_ids(cla, oc)
    keep = fl["detail"].get("minimal_rules") or enabled
    t0 = time.time()
    disabled = set(allids) - set(keep)
    if not not_converging(lines, cla, oc, disabled):
        return {"minimise": "not reproduced with the recorded configuration"}
    if len(keep) > 4:
        # the in-worker budget ran out: go on
        test = guarded(lambda dis: not_converging(lines, cla, oc, dis), [], 20.0)
        keep = minimise_rules(keep, allids, test, 30.0) or keep
        disabled = set(allids) - set(keep)
        t0 = time.time()
    cut = cut_lines(lines, cla, oc, lambda ls: not_converging(ls, cla, oc, disabled), t0 + budget)
    # confirm through the real configuration path: a generated `rule: {id: {disable: true}}` file
    conf = disable_config(enabled, keep)
    cla2, oc2 = vsgrun.make_config(style=inp.get("style"), conf_dicts=list(inp.get("config_dicts") or []) + [conf])
    xs, status = iterate(cut, cla2, oc2)
    verdict, where = classify_sequence(xs)
    confirmed = len(xs) >= 3 and xs[2] != xs[1]
    changers = second_run_changers(xs[1], cla2, oc2) if confirmed else []
    return {
        "minimal_rules": sorted(keep),
        "cut_input": cut if len(cut) <= 60 else None,
        "cut_lines": len(cut),
        "confirmed_through_config_file": confirmed,
        "sequence_on_cut_input": "%s %r" % (verdict, where),
        "rules_changing_in_second_run_on_cut_input": changers[:8],
        "x1": xs[1] if len(xs) > 1 and len(cut) <= 40 else None,
        "x2": xs[2] if len(xs) > 2 and len(cut) <= 40 else None,
        "diff_x1_x2_on_cut_input": small_diff(xs[1], xs[2]) if confirmed else None,
        "disable_config_size": len(conf["rule"]),
        "minimise_wall": round(time.time() - t0, 1),
    }


# ------------------------------------------------------------------ CLI runs


def cli_violations(stdout):
    """the violation lines of `-of syntastic` output"""
    out = []
    for l in stdout.split("\n"):
        l = l.strip()
        if l.startswith(("ERROR:", "WARNING:")) and "(" in l:
            out.append(l.split(": ", 1)[1] if ": " in l else l)
    return sorted(out)


def cli_fix_then_check(text, style, dicts, extra_args=(), tmp=None):
    """`vsg --fix -f copy` then `vsg -f copy`; returns (violations printed by the fix run, by the fresh run, rc1, rc2, err)"""
    own = tmp is None
    if own:
        tmp = tempfile.mkdtemp(prefix="vsgverif-cli-")
    try:
        f = os.path.join(tmp, "t.vhd")
        with open(f, "w", encoding="utf-8", newline="") as fh:
            fh.write(text)
        args = ["/venv/bin/vsg", "-of", "syntastic"]  # `-ap` is invalid together with `--fix`
        if style:
            args += ["--style", style]
        confs = []
        for i, d in enumerate(dicts or []):
            p = os.path.join(tmp, "c%d.json" % i)
            json.dump(d, open(p, "w"))
            confs.append(p)
        if confs:
            args += ["-c", *confs]
        args += list(extra_args)
        p1 = subprocess.run(args + ["--fix", "-f", f], stdout=subprocess.PIPE, stderr=subprocess.PIPE, text=True, timeout=600, cwd=tmp)
        fixed = open(f, encoding="utf-8").read()
        p2 = subprocess.run(args + ["-f", f], stdout=subprocess.PIPE, stderr=subprocess.PIPE, text=True, timeout=600, cwd=tmp)
        v1 = [x.replace(f, "t.vhd") for x in cli_violations(p1.stdout)]
        v2 = [x.replace(f, "t.vhd") for x in cli_violations(p2.stdout)]
        err = None
        if "Traceback" in p1.stderr or "Traceback" in p2.stderr:
            err = (p1.stderr + p2.stderr)[-300:]
        rej = (p2.stdout + p2.stderr) if "Error" in (p2.stdout + p2.stderr) and "Unexpected token" in (p2.stdout + p2.stderr) else None
        # once more on the file just written: a --fix run that may have nothing left to fix (and then writes nothing)
        # must still print what a fresh check prints
        second = None
        if rej is None and err is None:
            p3 = subprocess.run(args + ["--fix", "-f", f], stdout=subprocess.PIPE, stderr=subprocess.PIPE, text=True, timeout=600, cwd=tmp)
            p4 = subprocess.run(args + ["-f", f], stdout=subprocess.PIPE, stderr=subprocess.PIPE, text=True, timeout=600, cwd=tmp)
            second = ([x.replace(f, "t.vhd") for x in cli_violations(p3.stdout)], [x.replace(f, "t.vhd") for x in cli_violations(p4.stdout)])
        _W["cli_second"] = second
        return v1, v2, p1.returncode, p2.returncode, err, rej, fixed
    finally:
        if own:
            shutil.rmtree(tmp, ignore_errors=True)


def cli_job(arg):
    inp, extra = arg
    try:
        v1, v2, rc1, rc2, err, rej, fixed = cli_fix_then_check(inp["text"], inp.get("style"), inp.get("config_dicts"), extra)
        second = _W.pop("cli_second", None)
        return {"input": inp, "extra": list(extra), "v1": v1, "v2": v2, "second": second, "rc": [rc1, rc2], "err": err, "rejected": rej and " ".join(rej.split())[:300]}
    except Exception:  # noqa: BLE001
        return {"input": inp, "extra": list(extra), "harness": traceback.format_exc()[-500:]}


# ------------------------------------------------------------------ run


def run(prop, tier):
    res = common.Result(prop, tier)
    ok_model, tables, nobl, ndis, thms = common.lean_phase(res, prop)
    if not ok_model:
        return res.finish(max(nobl, 1), 0, "lake build VsgModel driver VsgProofs.Properties.%s" % prop, thms)
    jobs = make_jobs(prop, tier)
    worker = run_c08 if prop == "C08" else run_c09
    t0 = time.time()
    with multiprocessing.Pool(16, initializer=_init) as pool:
        results = list(pool.imap_unordered(worker, jobs, chunksize=2))
        status = collections.Counter(r["status"] for r in results)
        fired = collections.Counter()
        for r in results:
            fired.update(r.get("fired", {}))
        distinct = {}
        counts = collections.Counter()
        for r in results:
            for fl in r["failures"]:
                key = (fl["site"], fl["kind"])
                if prop == "C09":
                    ch0 = [c for c in (fl["detail"].get("rules_changing_in_second_run") or []) if not c.startswith("<")][:1]
                    key = (fl["site"], fl["kind"], tuple(ch0))
                counts["%s|%s" % key[:2]] += 1
                if key not in distinct or len(fl["input"].get("text", "")) < len(distinct[key]["input"].get("text", "")):
                    distinct[key] = fl
        for r in results:
            for pb in r.get("pbs", [])[:2]:
                res.proof_break(pb["what"], pb["detail"])
            if r["status"] == "harness":
                res.notes.append("harness error: %s %s" % (r["job"], r.get("error", "")[-300:]))
        extra = {}
        fls = list(distinct.values())
        mins = pool.map(minimise_c09 if prop == "C09" else minimise_c08, fls, chunksize=1) if fls else []
        for fl, m in zip(fls, mins):
            fl["detail"]["minimised"] = m
            same_site = prop == "C09" or m.get("site_on_cut_input") in (None, fl["site"])
            if prop == "C09" and isinstance(m.get("minimal_rules"), list):
                fl["detail"]["minimal_rules"] = m["minimal_rules"]
                if len(m["minimal_rules"]) <= 4:
                    fl["site"] = "+".join(m["minimal_rules"])
            if m.get("cut_input") and m.get("confirmed_through_config_file") and same_site:
                mr = m.get("minimal_rules") if prop == "C08" else fl["detail"].get("minimal_rules")
                fl["input"] = dict(fl["input"], minimal_rules=mr, cut_input=m["cut_input"])
        if prop == "C09":
            # sites may have been sharpened by the second minimisation: merge equal ones
            merged = {}
            for fl in fls:
                key = (fl["site"], fl["kind"], tuple([c for c in (fl["detail"].get("rules_changing_in_second_run") or []) if not c.startswith("<")][:1]))
                old_fl = merged.get(key)
                if old_fl is None or len(fl["input"].get("cut_input") or fl["input"]["text"].split("\n")) < len(old_fl["input"].get("cut_input") or old_fl["input"]["text"].split("\n")):
                    merged[key] = fl
            distinct = merged
        if prop == "C09":
            verdicts = collections.Counter(r.get("verdict") for r in results if r.get("verdict"))
            hyp_all = sum(1 for r in results if r.get("hyp_all"))
            extra = {
                "converged_after_1": verdicts.get("converged1", 0),
                "converged_after_2": verdicts.get("converged2", 0),
                "converged_after_3_or_4": verdicts.get("converged3", 0) + verdicts.get("converged4", 0),
                "cycle": verdicts.get("cycle", 0),
                "never_within_5": verdicts.get("never", 0),
                "fixpoint_hypotheses_hold_on_x1": hyp_all,
                "fixpoint_hypotheses_hold_and_second_fix_changed": sum(1 for r in results if r.get("hyp_all") and r.get("verdict") not in (None, "converged1")),
            }
        else:
            retok = collections.Counter()
            for r in results:
                retok.update(r.get("retok", {}))
            # a handful of real CLI runs: the jobs with a report difference first, then others
            rng = common.rng("cli-" + prop)
            cli_inputs = []
            for key, fl in distinct.items():
                wants = "report_difference" in fl["detail"] or key[1].startswith("fixedTextRejected")
                if wants and len(cli_inputs) < (5 if tier == "quick" else 14):
                    inp = fl["input"]
                    ex = []
                    if inp.get("fix_phase", 7) != 7:
                        ex += ["--fix_phase", str(inp["fix_phase"])]
                    if inp.get("skip_phase"):
                        ex += ["--skip_phase", *[str(x) for x in inp["skip_phase"]]]
                    cli_inputs.append((inp, tuple(ex), key))
            pool_jobs = [j for j in jobs if j["config"] in ("default", "jcl", "upper")]
            rng.shuffle(pool_jobs)
            in_process = {}
            for r in results:
                jk = json.dumps(r["job"], sort_keys=True)
                in_process[jk] = [(fl["site"], fl["kind"]) for fl in r["failures"]]
            for j in pool_jobs[: (4 if tier == "quick" else 18)]:
                style, dicts = gen_inputs.named_config(j["config"], tables, random.Random(0))
                ex = []
                if j.get("fix_phase", 7) != 7:
                    ex += ["--fix_phase", str(j["fix_phase"])]
                if j.get("skip_phase"):
                    ex += ["--skip_phase", *[str(x) for x in j["skip_phase"]]]
                _W.setdefault("tables", tables)
                known = [k for k in in_process.get(json.dumps({k: v for k, v in j.items() if k != "text"}, sort_keys=True), []) if k in distinct]
                text = sweep.job_text(j)
                if len(cli_inputs) % 2 == 0:
                    # something only a report-only (Warning) rule has to say: a line beyond column 120 (length_001)
                    text = text.rstrip("\n") + "\n-- " + "long comment line " * 8 + "\n"
                cli_inputs.append((job_desc(j, style, dicts, text), tuple(ex), known[0] if known else None))
            cli_res = pool.map(cli_job, [(a, b) for a, b, _ in cli_inputs], chunksize=1)
            cli_diff = 0
            cli_samples = []
            for (inp, ex, key), cr in zip(cli_inputs, cli_res):
                if "harness" in cr:
                    res.notes.append("cli harness error: " + cr["harness"][-200:])
                    continue
                differs = cr["v1"] != cr["v2"] or bool(cr["rejected"])
                cli_diff += differs
                if cr.get("second") and cr["second"][0] != cr["second"][1] and cr["v1"] == cr["v2"]:
                    # the first fix run printed what the fresh check printed, the second one does not
                    c3, c4 = collections.Counter(cr["second"][0]), collections.Counter(cr["second"][1])
                    k3 = ("apply_rules", "cliReportDiffersSecondFix")
                    counts["%s|%s" % k3] += 1
                    distinct.setdefault(k3, {"site": k3[0], "kind": k3[1], "detail": {"args": list(ex), "only_printed_by_second_fix_run": sorted((c3 - c4).elements())[:4], "only_printed_by_fresh_run": sorted((c4 - c3).elements())[:4]}, "input": inp})
                cli_samples.append({"path": inp.get("path"), "variant": inp.get("variant"), "config": inp.get("config"), "extra": list(ex), "printed_by_fix_run": len(cr["v1"]), "printed_by_fresh_run": len(cr["v2"]), "differs": differs, "predicted_by_in_process_finding": key and "%s/%s" % key})
                if differs:
                    c1, c2 = collections.Counter(cr["v1"]), collections.Counter(cr["v2"])
                    if key is not None:
                        distinct[key]["detail"].setdefault("confirmed_on_cli", []).append({"job": [inp.get("path"), inp.get("variant"), inp.get("config")], "args": list(ex), "only_printed_by_fix_run": sorted((c1 - c2).elements())[:4], "only_printed_by_fresh_run": sorted((c2 - c1).elements())[:4], "fresh_run_rejected": cr["rejected"]})
                    elif False:
                        distinct[key]["detail"]["confirmed_on_cli"] = {"args": list(ex), "only_printed_by_fix_run": sorted((c1 - c2).elements())[:4], "only_printed_by_fresh_run": sorted((c2 - c1).elements())[:4], "fresh_run_rejected": cr["rejected"]}
                    else:
                        k2 = ("apply_rules", "cliReportDiffers" if not cr["rejected"] else "cliFixedFileRejected")
                        counts["%s|%s" % k2] += 1
                        distinct.setdefault(k2, {"site": k2[0], "kind": k2[1], "detail": {"args": list(ex), "only_printed_by_fix_run": sorted((c1 - c2).elements())[:4], "only_printed_by_fresh_run": sorted((c2 - c1).elements())[:4], "fresh_run_rejected": cr["rejected"]}, "input": inp})
            extra = {
                "retokenised_lines_through_lean": retok.get("lines", 0),
                "lines_wellformed": retok.get("wf", 0),
                "lines_not_wellformed_but_retokenising": retok.get("notWfButSame", 0),
                "lines_not_retokenising": retok.get("notSame", 0),
                "lean_vs_real_tokenizer_mismatches": retok.get("corrMismatch", 0),
                "report_comparisons": sum(r.get("report_cmp", 0) for r in results),
                "partial_fix_jobs_with_stale_indents": sum(r.get("stale_indent", 0) for r in results),
                "partial_fix_jobs_with_stale_indents_report_differs_only_with_all_phases": sum(r.get("stale_indent_latent", 0) for r in results),
                "modes": dict(collections.Counter("fix_phase=%s skip=%s" % (j.get("fix_phase", 7), j.get("skip_phase") or []) for j in jobs)),
                "cli_runs": len(cli_res),
                "cli_runs_differing": cli_diff,
                "cli_samples": cli_samples[:12],
                "model_tokens_compared": sum(r.get("tokens", 0) for r in results),
            }
    for key, fl in sorted(distinct.items()):
        site = fl["site"]
        if prop == "C09":
            # the pinned tree does not converge for many rule combinations: a finding is identified by the
            # base class (owner of _fix_violation) of the first rule that still changes the file in the
            # second run; the minimal interacting rule set stays in the detail
            det = fl["detail"] if isinstance(fl["detail"], dict) else {}
            ch = [c for c in det.get("rules_changing_in_second_run") or [] if not c.startswith("<")]
            # the culprit: a rule of the MINIMAL non-converging rule set that still changes the file in the second
            # run (on the cut input if the minimisation got that far) - rules that merely follow because an
            # alignment moved (type_100 after constant_014 ...) are not what identifies the finding
            mr = det.get("minimal_rules") if isinstance(det.get("minimal_rules"), list) else []
            cut = (det.get("minimised") or {}).get("rules_changing_in_second_run_on_cut_input") or []
            culprit = [c for c in cut if c in mr] or [c for c in ch if c in mr]
            cand = culprit[:1] or ch[:1] or sorted(mr)[:1] or [x for x in site.split("+")][:1]
            try:
                site = owner_of(cand[0]) if cand and not cand[0].startswith("rule_list") else site
            except Exception:  # noqa: BLE001
                pass
            if isinstance(fl["detail"], dict):
                fl["detail"]["rule_set_site"] = fl["site"]
            # the rule itself stays in the detail only: with the rule id in the identity the set of findings of the
            # pinned tree has a long seed-dependent tail (whitespace_007, external_signal_name_103, ... are all the same
            # base-class behaviour), and an alarm on the unchanged tree is worse than a masked second rule (DESIGN 1.2)
            if isinstance(fl["detail"], dict):
                fl["detail"]["culprit_rule"] = cand[0] if cand else None
        res.fail(site, fl["kind"], fl["detail"], fl["input"])
    nontrivial = sum(1 for r in results if r.get("changed"))
    samples = [{"job": os.path.relpath(fl["input"].get("path", "?"), common.REPO), "variant": fl["input"].get("variant"), "config": fl["input"].get("config"), "site": fl["site"], "kind": fl["kind"]} for fl in list(distinct.values())[:6]]
    if not samples:
        samples = [{"note": "no failing job", "job": os.path.relpath(r["job"]["path"], common.REPO), "variant": r["job"]["variant"], "config": r["job"]["config"], "status": r["status"]} for r in results[:5]]
    res.coverage.update(
        {
            "evaluations": len(results),
            "distinct_nontrivial": nontrivial,
            "rule": RULE[prop],
            "samples": samples,
            "status": dict(status),
            "rules_fired_histogram": dict(sorted(fired.items(), key=lambda kv: -kv[1])[:60]),
            "distinct_rules_fired": len(fired),
            "failure_counts": dict(counts),
            "configs": dict(collections.Counter(j["config"] for j in jobs)),
            "variants": dict(collections.Counter(j["variant"] for j in jobs)),
            "search_wall_s": round(time.time() - t0, 1),
        }
    )
    res.coverage.update(extra)
    if prop == "C08":
        res.assumptions = [
            "class agreement of the fresh parse with the in-memory model is decided per explored run (the classifier is not modelled in Lean); the Lean theorem covers the lexical round trip of lines free of quote and backslash characters",
            "code tags are compared on the code tokens (layout tokens left out), first difference only; their effect is also compared through the reports",
            "jobs whose input is rejected or whose fix run raises are not evaluated (C19)",
        ]
        try:
            import props_setindent

            props_setindent.extra(res, tier, "C08")
        except ImportError:
            pass
    else:
        res.assumptions = [
            "convergence of the real rule set is emergent from ~960 unmodelled analyses: the Lean theorems are the reduction (fixpoint of every scheduled rule and of the post-normalisation ⇒ fixpoint of the run; a fixpoint after one step excludes every cycle); their hypotheses are evaluated with the real analyses on each explored first output",
            "jobs whose input is rejected, whose output is rejected (C08) or whose fix run raises (C19) are not evaluated",
        ]
        try:  # wp2c_selstable: token_indent (102 rules) — real second analysis after the real fix must be empty (one-step convergence)
            import props_bfull2

            props_bfull2.extra(res, tier, "C09")
        except ImportError:
            pass
    return res.finish(max(nobl, 1), ndis, "cd lean && lake build VsgProofs.Properties.%s && lake env lean <audit file with #print axioms>" % prop, thms)


# ------------------------------------------------------------------ replay


def replay(prop, path):
    import gen_tables
    import vsgrun

    gen_tables.generate()
    d = json.load(open(path))
    if d.get("kind") == "no-failing-input-found":
        print(json.dumps(d, indent=1)[:3000])
        return 0
    _init()
    inp = d["input"]
    cla, oc = vsgrun.make_config(style=inp.get("style"), conf_dicts=inp.get("config_dicts") or [])
    job = {"text": inp["text"], "variant": "orig", "config": "replay", "fix_phase": inp.get("fix_phase", 7), "skip_phase": inp.get("skip_phase") or [], "lean": os.path.exists(os.path.join(common.LEAN, ".lake", "build", "bin", "driver"))}
    _W["configs"][("replay", None)] = (cla, oc, inp.get("style"), inp.get("config_dicts") or [])
    if prop == "C08":
        r = run_c08(job)
    else:
        r = run_c09(job)
    hit = [fl for fl in r["failures"] if fl["kind"] == d["failure"]] or r["failures"]
    for fl in r["failures"]:
        print("REPRODUCED property=%s site=%s kind=%s" % (prop, fl["site"], fl["kind"]))
        print(json.dumps(fl["detail"], indent=1, default=str)[:2500])
    if inp.get("cut_input") and isinstance(inp.get("minimal_rules"), list):
        enabled, allids = all_rule_ids(cla, oc)
        conf = disable_config(enabled, inp["minimal_rules"])
        cla2, oc2 = vsgrun.make_config(style=inp.get("style"), conf_dicts=list(inp.get("config_dicts") or []) + [conf])
        print("---- cut input (%d lines), only rules %s enabled (all others disabled through a generated configuration file)" % (len(inp["cut_input"]), inp["minimal_rules"]))
        if prop == "C09":
            xs, status = iterate(inp["cut_input"], cla2, oc2)
            print("sequence:", classify_sequence(xs))
            for i, x in enumerate(xs):
                print("---- x%d" % i)
                print("\n".join(x))
        else:
            fp, sk = inp.get("fix_phase", 7), list(inp.get("skip_phase") or [])
            ev = c08_eval(inp["cut_input"], cla2, oc2, fp, sk, None)
            print("\n".join(inp["cut_input"]))
            print("---- emitted")
            print("\n".join(ev.get("text1") or []))
            print("---- verdict:", c08_kinds(ev, fp == 7 and not sk), ev.get("error") or "", ev.get("d") and json.dumps(describe_diff(ev["a"], ev["b"], ev["d"]), default=str)[:1200], ev.get("report"))
    if r["status"] != "ok":
        print("status:", r["status"], r.get("error"))
    return 1 if hit else 0
