"""
C04 — reading a file is lossless and a clean file is never rewritten.

Decided by
  (1) the Lean theorems of VsgProofs/Properties/C04.lean (tokenizer over all Unicode strings, line
      layer, write decision of apply_rules),
  (2) correspondence runs that tie the three Lean models to /repo:
        tokens.create            vs driver `lex`   (pass by pass, corr_lex.py)
        vhdlFile._processFile    vs driver `lines` (token by token of the pre-classification layer,
                                                    corr_lines.py; read_vhdlfile vs `readLines`)
  (3) the hypotheses the `_partial` theorems leave to the run: the contract `ValuePreserving`
      (= `Refines`) of design_file.tokenize + post passes is evaluated on every parsed file,
  (4) a direct search on the REAL code for inputs on which the property fails:
        "".join(tokens.create(s)) == s, no empty token, no exception
        vhdlFile(lines).get_lines() == [""] + lines for every accepted file, every token classified
        apply_rules on real temp files: bytes / inode / mtime / mode / directory listing around runs
        without --fix, with --fix on clean files, with --fix when only unrepairable violations exist.
"""
import hashlib
import io
import json
import multiprocessing
import os
import shutil
import subprocess
import sys
import tempfile
import time
import contextlib

import common
import corr_lex
import gen_inputs

PROCS = 16

# ---------------------------------------------------------------------------------------------
# part A: tokenizer
# ---------------------------------------------------------------------------------------------


def _lex_strings(strs):
    return corr_lex.check_strings(strs)


def part_tokens(res, tier, cov):
    t0 = time.time()
    max_len = 4 if tier == "quick" else 5
    nrand = 100000 if tier == "quick" else 2000000
    tot, reg, dis, prop = corr_lex.exhaustive(max_len, PROCS)
    t1, r1, d1, p1 = corr_lex.random_run(nrand, PROCS)
    cl = corr_lex.corpus_lines()
    chunks = [cl[i : i + 2000] for i in range(0, len(cl), 2000)]
    t2 = r2 = 0
    d2, p2 = [], []
    with multiprocessing.Pool(PROCS) as pool:
        for n, r, d, p in pool.imap_unordered(_lex_strings, chunks):
            t2 += n
            r2 += r
            d2.extend(d[:5])
            p2.extend(p[:5])
    for d in (dis + d1 + d2)[:5]:
        res.proof_break("correspondence tokens.create vs Lean model `create` (pass %s)" % d.get("pass"), d)
    for p in prop + p1 + p2:
        if p["kind"] == "harness-pass-replay-differs":
            res.proof_break("correspondence tokens.create: replaying the nine passes by hand differs from tokens.create", p)
        else:
            res.fail("tokens.create", p["kind"], p["detail"], {"mode": "tokens", "string": p["string"], "codepoints": [ord(c) for c in p["string"]]})
    cov["tokenizer"] = {
        "exhaustive_alphabet": corr_lex.ALPHABET,
        "exhaustive_max_len": max_len,
        "exhaustive_strings": tot,
        "random_strings": t1,
        "corpus_lines": t2,
        "regrouped": reg + r1 + r2,
        "disagreements": len(dis) + len(d1) + len(d2),
        "property_failures": len(prop) + len(p1) + len(p2),
        "wall_s": round(time.time() - t0, 1),
    }
    return tot + t1 + t2, reg + r1 + r2


# ---------------------------------------------------------------------------------------------
# part B: line layer
# ---------------------------------------------------------------------------------------------

_W = {}


def _worker():
    """per-process state: configuration, Lean driver, scratch directory"""
    if not _W:
        import corr_lines
        import vsgrun

        _W["cfg"] = vsgrun.make_config()
        _W["ll"] = corr_lines.LeanLines()
        _W["corr"] = corr_lines
    return _W


def decode_like_read_vhdlfile(data):
    """the text read_vhdlfile iterates over, before newline translation"""
    try:
        return data.decode("utf-8")
    except UnicodeDecodeError:
        return data.decode("ISO-8859-1")


def refines(pre, post):
    """the contract `Refines` of VsgModel/Lex/Lines.lean on one parsed file.
    pre: [(kind, value)] handed to design_file.tokenize; post: [(type, value)] final list.
    Returns None or a dict describing the first breach."""
    from vsg import parser

    j = 0
    for i, (k, v) in enumerate(pre):
        if k == 2:
            if j >= len(post) or not issubclass(post[j][0], parser.carriage_return):
                return {"index": i, "value": v, "what": "carriage return not kept", "got": _show(post[j : j + 3])}
            j += 1
            continue
        acc = ""
        start = j
        while True:
            if j >= len(post):
                return {"index": i, "value": v, "what": "token list ends early", "got": _show(post[start:j]), "site": post[start][0].__module__.replace("vsg.token.", "").replace("vsg.", "") if start < len(post) else None}
            t, pv = post[j]
            if issubclass(t, parser.carriage_return):
                return {"index": i, "value": v, "what": "a carriage return inside the group", "got": _show(post[start : j + 1]), "site": post[start][0].__module__.replace("vsg.token.", "").replace("vsg.", "")}
            acc += pv
            j += 1
            if acc == v:
                break
            if not v.startswith(acc) or pv == "":
                return {"index": i, "value": v, "what": "values do not concatenate to the value", "got": _show(post[start : j + 2]), "site": post[start][0].__module__.replace("vsg.token.", "")}
    if j != len(post):
        return {"index": len(pre), "value": None, "what": "extra tokens", "got": _show(post[j : j + 3])}
    return None


def _show(sl):
    return [(t.__module__.split(".")[-1] + "." + t.__name__, v) for t, v in sl]


def check_file(spec):
    d = None
    if spec.get("path") is None:
        d = tempfile.mkdtemp(prefix="vsgverif-c04-")
        spec = dict(spec, path=os.path.join(d, "f.vhd"))
        with open(spec["path"], "wb") as f:
            f.write(spec["data"])
    try:
        return _check_file(spec)
    finally:
        if d is not None:
            shutil.rmtree(d, ignore_errors=True)


def _check_file(spec):
    """spec: {"name", "kind", "path"} or {"name", "kind", "data": bytes}.  Runs the REAL
    read_vhdlfile + vhdlFile on it, the Lean model on the same input, and evaluates the property.
    Returns a JSON-able dict."""
    from vsg import parser
    from vsg.vhdlFile import utils as vutils

    W = _worker()
    corr = W["corr"]
    cla, conf = W["cfg"]
    out = {"name": spec["name"], "kind": spec["kind"], "dis": [], "fails": [], "breach": None}
    path = spec["path"]
    lines, err = vutils.read_vhdlfile(path)
    if err is not None:
        out["status"] = "unreadable"
        return out
    # read_vhdlfile vs the Lean `readLines`
    if spec.get("check_read"):
        with open(path, "rb") as f:
            text = decode_like_read_vhdlfile(f.read())
        ml = W["ll"].read(text)
        if ml != lines:
            k = next((i for i in range(min(len(ml), len(lines))) if ml[i] != lines[i]), min(len(ml), len(lines)))
            out["dis"].append({"what": "read_vhdlfile vs readLines", "first_difference_at_line": k + 1, "python": lines[k : k + 2], "lean": ml[k : k + 2], "counts": [len(lines), len(ml)]})
        out["read_checked"] = True
    out["lines"] = len(lines)
    if spec.get("expect_lines") is not None and lines != spec["expect_lines"]:
        out["dis"].append({"what": "line-end independence (theorem readLines_line_end_independent) on the real read_vhdlfile", "counts": [len(lines), len(spec["expect_lines"])]})
    ob, dis = corr.compare_file(W["ll"], lines, cla, conf)
    out["dis"].extend(dis[:3])
    if ob.pre is None:
        out["status"] = "raised-before-classification"
        out["exc"] = repr(ob.exc)[:200]
        return out
    out["tokens"] = len(ob.pre)
    kinds = set(k for k, _ in ob.pre)
    out["has_dc"] = bool(kinds & {5, 6, 7})
    out["has_comment"] = 4 in kinds
    out["has_pragma"] = bool(kinds & {12, 13, 14, 15})
    out["has_preproc"] = 9 in kinds
    pre_lines = ["".join(v for _, v in l) for l in corr.split_lines(ob.pre)]
    pre_lossy = [i for i, (a, b) in enumerate(zip(pre_lines, lines)) if a != b.rstrip("\n").rstrip("\r")]
    out["pre_lossy"] = len(pre_lossy)
    # empty-valued tokens of the pre layer: only blank_line / text("") of an empty line are expected
    if ob.obj is None:
        out["status"] = "rejected"
        out["exc"] = type(ob.exc).__name__
        return out
    out["status"] = "accepted"
    got = ob.obj.get_lines()
    want = [""] + [l.rstrip("\n").rstrip("\r") for l in lines]
    br = refines(ob.pre, ob.post)
    if br is not None:
        out["breach"] = br
    if got != want:
        k = next((i for i in range(min(len(got), len(want))) if got[i] != want[i]), min(len(got), len(want)))
        if pre_lossy:
            site = "vhdlFile.classify.comment"
        elif br is not None and br.get("site"):
            site = "vhdlFile.classify." + br["site"]
        else:
            site = "vhdlFile.get_lines"
        out["fails"].append(
            {
                "site": site,
                "kind": "notLossless",
                "detail": {"line": k, "read": want[k] if k < len(want) else None, "emitted": got[k] if k < len(got) else None, "line_counts": [len(want) - 1, len(got) - 1], "contract": br},
                "lines": lines if len(lines) < 400 else lines[max(0, k - 6) : k + 3],
            }
        )
    else:
        raw = [(i, o.value) for i, o in enumerate(ob.obj.lAllObjects) if type(o) is parser.item]
        out["raw_items"] = len(raw)
        if raw and spec["kind"] in ("corpus", "variant", "newline", "stress"):
            i, v = raw[0]
            ln = sum(1 for o in ob.obj.lAllObjects[:i] if isinstance(o, parser.carriage_return))
            out["fails"].append({"site": "vhdlFile._processFile", "kind": "unclassifiedToken", "detail": {"value": v, "line": ln + 1, "text": lines[ln][:120], "count": len(raw)}, "lines": lines if len(lines) < 400 else None})
    one_for_one = len(ob.pre) == len(ob.post) and all(a[1] == b[1] for a, b in zip(ob.pre, ob.post))
    out["one_for_one"] = one_for_one
    return out


def _check_batch(specs):
    res = []
    for s in specs:
        try:
            res.append(check_file(s))
        except Exception as e:  # noqa: BLE001
            import traceback

            res.append({"name": s["name"], "kind": s["kind"], "harness_error": traceback.format_exc()[-600:], "dis": [], "fails": []})
    return res


# ------------------------------------------------------------------ generators

DC_OPEN = ["/*", "/* text", "  /* a -- b", "/***********", "\t/* tab", "/* \"q", "/*-- x"]
DC_BODY = ["", "   ", "\t", "text", "-- dash", "  -- vhdl_comp_off", "/ foo *", "/ box      *", "/ a **", "/", "/ x", "x *", "* x", "**", "/*", "/* nested", "a ; b ( c", "\"str", "it's", "# not cpp", " # x", "-", "--", "- -", "\\ext *", "/\t*", "/ \\a*"]
DC_CLOSE = ["*/", "  */", "text */", "**/", "***********/", "*/ -- after", "*/  ", "-- */", "\t*/"]
DC_ONE = ["/* one */", "/**/", "/***/", "/* -- */", "  /* a */  ", "/* a */ -- b", "/* a */ /* b */", "/* \"x */"]
LINE_COMMENTS = ["-- c", "--", "  --\ttab", "-- \"quoted\" /* not open", "-- */", "--  trailing  ", "--x", "-- synthesis translate_off", "-- synthesis translate_on", "-- pragma foo", "-- vsg_off", "-- vsg_on", "\t-- t", "--\x0cff", "-- a\x0bb\x85c d", "-- é ß µ"]
TEMPLATE = """
library ieee;
  use ieee.std_logic_1164.all;

entity fifo is
  port (
    clk : in    std_logic;
    a   : out   std_logic_vector(7 downto 0)
  );
end entity fifo;

architecture rtl of fifo is

  constant c_dash  : string := "--";
  constant c_open  : string := "/*";
  constant c_close : string := "*/ -- not a comment";
  signal   s       : std_logic_vector(7 downto 0);

begin

  proc_a : process (clk) is
  begin

    if rising_edge(clk) then
      s <= x"0F" and s; -- "quoted" /* x
      a <= s when s /= "--------" else (others => '-');
    end if;

  end process proc_a;

end architecture rtl;
""".lstrip("\n")


def stress_text(base_lines, rng):
    """valid VHDL by construction: comments inserted at line boundaries of a valid file that has
    no delimited comment of its own"""
    out = []
    # half of the files without lines starting with `/` (the shape of the defect repaired in c5cb15b)
    bodies = DC_BODY if rng.random() < 0.5 else [b for b in DC_BODY if not b.startswith("/")]
    for l in base_lines:
        r = rng.random()
        if r < 0.12:
            out.append(" " * rng.randrange(0, 5) + rng.choice(LINE_COMMENTS))
        elif r < 0.22:
            out.append(rng.choice(DC_OPEN))
            for _ in range(rng.randrange(0, 4)):
                out.append(rng.choice(bodies))
            out.append(rng.choice(DC_CLOSE))
        elif r < 0.28:
            out.append(rng.choice(DC_ONE))
        elif r < 0.32:
            out.append(rng.choice(["", "  ", "\t", " \t "]))
        out.append(l)
    return out


GARBAGE = ["/*", "*/", "/", "*", "**", "--", "-", " ", "  ", "\t", "a", "foo", '"', '"a b"', '"--"', '"/*"', "'", "' '", "#", "# x", "--vhdl_comp_off", "--vhdl_comp_on", "-- synthesis translate_off", "-- pragma foo", "\x0c", "\x0b", "\x85", ";", "(", ")", "\\", "\\a b\\", "\\x*", "<=", "entity", "is", "end", "\r", "x\"1\"", "\"\t\"", " ", "\xa0"]


def garbage_files(rng, n):
    out = []
    for i in range(n):
        lines = ["".join(rng.choice(GARBAGE) for _ in range(rng.randrange(0, 7))) for _ in range(rng.randrange(0, 6))]
        out.append({"name": "garbage/%d" % i, "kind": "garbage", "data": ("\n".join(lines) + "\n").encode("utf-8") if lines else b"", "check_read": True})
    return out


def dotted_variant(text, rng):
    """selected names get one more segment (`work.pkg` -> `work.pkg.x`): the classifier splits
    dotted names, this exercises the splitting"""
    import re

    def f(m):
        return m.group(0) + ".x1" if rng.random() < 0.5 else m.group(0)

    return re.sub(r"(?<![\w.\"'])[A-Za-z]\w*\.[A-Za-z]\w*(?![\w.(\"'])", f, text)


def build_specs(tier, rng):
    files = gen_inputs.corpus_files()
    specs = []
    ncorpus = len(files) if tier == "thorough" else len(files)
    for f in files[:ncorpus]:
        specs.append({"name": f, "kind": "corpus", "path": f, "check_read": True})
    # re-layout variants
    nvar = 250 if tier == "quick" else 1200
    pick = rng.sample(files, min(nvar, len(files)))
    for f in pick:
        text = gen_inputs.read_text(f)
        for kind in rng.sample(gen_inputs.VARIANTS, 2):
            try:
                v = gen_inputs.variant(text, rng, kind)
            except Exception:  # noqa: BLE001
                continue
            specs.append({"name": "%s@%s" % (f, kind), "kind": "variant", "data": v.encode("utf-8"), "check_read": True})
    # dotted names
    import re

    dotted = []
    for f in files:
        if os.path.getsize(f) < 20000:
            text = gen_inputs.read_text(f)
            if re.search(r"(?i)\b(entity|use|context|configuration)\s+\w+\.\w+", text):
                dotted.append((f, text))
    for f, text in rng.sample(dotted, min(80 if tier == "quick" else 800, len(dotted))):
        specs.append({"name": "%s@dotted" % f, "kind": "dotted", "data": dotted_variant(text, rng).encode("utf-8")})
    # line-end variants on real temp files
    nnl = 40 if tier == "quick" else 400
    for f in rng.sample(files, min(nnl, len(files))):
        text = gen_inputs.read_text(f)
        ls = text.split("\n")
        if ls and ls[-1] == "":
            ls = ls[:-1]
        ls = [l.rstrip("\r") for l in ls]
        if any("\r" in l for l in ls) or not ls:
            continue
        # other "line separators" stay inside a line: put them into comments
        ls2 = [(l + rng.choice([" -- a\x0cb", " -- a\x0bb", " -- a\x85b", " -- a b c", " -- \x1c\x1d\x1e"]) if (l.strip() and "--" not in l and "/*" not in l and "*/" not in l and '"' not in l and rng.random() < 0.1) else l) for l in ls]
        for eolname, eol, final in (("lf", "\n", True), ("crlf", "\r\n", True), ("cr", "\r", True), ("nofinal", "\n", False), ("mixed", None, True)):
            if eol is None:
                # a lone \r directly followed by an empty line's \n would read as ONE \r\n: a lone \r only
                # in front of a non-empty line
                data = "".join(l + (["\r\n", "\n", "\r" if (i + 1 < len(ls2) and ls2[i + 1] != "") else "\n"][i % 3]) for i, l in enumerate(ls2))
            else:
                data = eol.join(ls2) + (eol if final else "")
            # a last empty line without a final line end does not exist in the file
            expect = ls2 if (final or ls2[-1] != "") else ls2[:-1]
            specs.append({"name": "%s@eol-%s" % (f, eolname), "kind": "newline", "data": data.encode("utf-8"), "check_read": True, "expect_lines": expect})
    # latin-1 fallback
    specs.append({"name": "synthetic/latin1", "kind": "newline", "data": TEMPLATE.replace("-- \"quoted\"", "-- caf\xe9 \"quoted\"").encode("ISO-8859-1"), "check_read": True})
    specs.append({"name": "synthetic/empty", "kind": "newline", "data": b"", "check_read": True})
    specs.append({"name": "synthetic/only-newlines", "kind": "garbage", "data": b"\n\r\n\r\r\n\n", "check_read": True})
    # comment stress: valid VHDL by construction
    bases = [TEMPLATE.split("\n")[:-1]]
    small = [f for f in files if os.path.getsize(f) < 6000]
    for f in rng.sample(small, min(25 if tier == "quick" else 200, len(small))):
        t = gen_inputs.read_text(f)
        if "/*" in t or "*/" in t or "\r" in t or "vhdl_comp" in t or "translate_" in t:
            continue
        bases.append(t.split("\n")[:-1] if t.endswith("\n") else t.split("\n"))
    nstress = 800 if tier == "quick" else 6000
    for i in range(nstress):
        b = bases[i % len(bases)] if i >= len(bases) else bases[i]
        lines = stress_text(b, rng)
        specs.append({"name": "stress/%d" % i, "kind": "stress", "data": ("\n".join(lines) + "\n").encode("utf-8"), "check_read": i % 10 == 0})
    # hand-written seeds
    seeds = {
        "seed/box-comment": ["/***********", "/ text     *", "***********/"] + TEMPLATE.split("\n")[:-1],
        "seed/slash-star": TEMPLATE.split("\n")[:12] + ["/*", "/ foo *", "*/"] + TEMPLATE.split("\n")[12:-1],
        "seed/dash-in-dc": TEMPLATE.split("\n")[:12] + ["/* a", "-- not a comment */ still", "-- vhdl_comp_off", "*/"] + TEMPLATE.split("\n")[12:-1],
        "seed/close-without-open": ["*/"] + TEMPLATE.split("\n")[:-1],
        "seed/preproc": ["#ifdef X /* opens", "hidden", "*/", " # indented", "\t# tab"] + TEMPLATE.split("\n")[:-1],
        "seed/comp-off": TEMPLATE.split("\n")[:12] + ["--vhdl_comp_off", "anything ( goes", "--vhdl_comp_on"] + TEMPLATE.split("\n")[12:-1],
    }
    for k, v in seeds.items():
        specs.append({"name": k, "kind": "stress" if k in ("seed/box-comment", "seed/slash-star", "seed/dash-in-dc") else "garbage", "data": ("\n".join(v) + "\n").encode("utf-8"), "check_read": True})
    # encodings: read_vhdlfile tries utf-8 first and falls back to ISO-8859-1 for the WHOLE file; the decoder works in
    # chunks, so the undecodable byte may show up after part of the file has been read: Latin-1 bytes early, late
    # (beyond the first 8 KiB and beyond 64 KiB) and only in the last line, in files of several sizes
    body = TEMPLATE.split("\n")[:-1]
    for tag, nfill, where in (("early", 0, 2), ("late-9k", 260, -2), ("late-70k", 2000, -2), ("mid-20k", 600, 300)):
        lines = body[:3] + ["  -- filler line %04d of a long header comment" % i for i in range(nfill)] + body[3:]
        k = where if where >= 0 else len(lines) + where
        lines[k] = lines[k] + " -- caf\u00e9 \u00b5s \u00df"
        specs.append({"name": "seed/latin1-%s" % tag, "kind": "stress", "data": ("\n".join(lines) + "\n").encode("iso-8859-1"), "check_read": True})
    specs.extend(garbage_files(rng, 2000 if tier == "quick" else 40000))
    return specs


def part_lines(res, tier, cov):
    t0 = time.time()
    rng = common.rng("c04/lines")
    specs = build_specs(tier, rng)
    batches = [specs[i : i + 12] for i in range(0, len(specs), 12)]
    stats = {"files": 0, "accepted": 0, "rejected": 0, "lines": 0, "tokens": 0, "with_delimited_comment": 0, "with_comment": 0, "with_pragma": 0, "with_preprocessor": 0, "read_checked": 0, "not_one_for_one": 0, "contract_breaches": 0, "pre_layer_lossy_files": 0, "raw_items_in_accepted": 0, "by_kind": {}, "harness_errors": 0}
    samples = []
    with multiprocessing.Pool(PROCS) as pool:
        for batch in pool.imap_unordered(_check_batch, batches):
            for r in batch:
                stats["files"] += 1
                bk = stats["by_kind"].setdefault(r["kind"], {"files": 0, "accepted": 0, "failures": 0})
                bk["files"] += 1
                if r.get("harness_error"):
                    stats["harness_errors"] += 1
                    res.notes.append("harness error on %s: %s" % (r["name"], r["harness_error"][-200:]))
                    continue
                for d in r["dis"]:
                    res.proof_break("correspondence line layer (%s) on %s" % (d.get("what"), r["name"]), d)
                st = r.get("status")
                stats["lines"] += r.get("lines", 0)
                stats["tokens"] += r.get("tokens", 0)
                stats["read_checked"] += 1 if r.get("read_checked") else 0
                if st == "accepted":
                    stats["accepted"] += 1
                    bk["accepted"] += 1
                    stats["with_delimited_comment"] += 1 if r.get("has_dc") else 0
                    stats["with_comment"] += 1 if r.get("has_comment") else 0
                    stats["with_pragma"] += 1 if r.get("has_pragma") else 0
                    stats["with_preprocessor"] += 1 if r.get("has_preproc") else 0
                    stats["not_one_for_one"] += 0 if r.get("one_for_one") else 1
                    stats["raw_items_in_accepted"] += r.get("raw_items", 0)
                    if r.get("breach") is not None:
                        stats["contract_breaches"] += 1
                    if r.get("breach") is not None and not any(fl["kind"] == "notLossless" for fl in r["fails"]):
                        # the hypothesis of getLines_processLines_partial is false on this file although
                        # get_lines is lossless on it: the theorem no longer covers the file.  (When the
                        # file is ALSO emitted wrongly it is the failing input itself and is reported as
                        # such below, with the breach in its detail.)
                        res.proof_break("contract ValuePreserving (Refines) of design_file.tokenize + post passes on %s" % r["name"], r["breach"])
                elif st == "rejected":
                    stats["rejected"] += 1
                if r.get("pre_lossy"):
                    stats["pre_layer_lossy_files"] += 1
                for fl in r["fails"]:
                    bk["failures"] += 1
                    res.fail(fl["site"], fl["kind"], {"file": r["name"], "detail": fl["detail"]}, {"mode": "lines", "name": r["name"], "lines": fl.get("lines")})
                    if len(samples) < 5:
                        samples.append({"file": r["name"], "site": fl["site"], "kind": fl["kind"]})
    stats["wall_s"] = round(time.time() - t0, 1)
    cov["line_layer"] = stats
    return stats, samples


# ---------------------------------------------------------------------------------------------
# part C: the file is written iff --fix and some _fix_violation ran
# ---------------------------------------------------------------------------------------------

CLEAN_TEMPLATE = """architecture rtl of fifo is

begin

  proc_a : process (clk) is
  begin

    a <= b;

  end process proc_a;

end architecture rtl;
"""
# an unlabeled process: process_016 (unfixable) and process_018 (fixable, but its _fix_violation
# returns without doing anything when there is no label to copy) report; nothing can be repaired
UNREPAIRABLE_TEMPLATE = CLEAN_TEMPLATE.replace("proc_a : process", "process").replace("end process proc_a", "end process")

_SPY = {}


def _install_spies():
    """class-level wrappers (this process only): remember the rule_list of the run, count the
    non-empty updates and those that changed a token"""
    if _SPY.get("installed"):
        return
    from vsg import rule as rule_mod
    from vsg import rule_list as rl_mod

    import corr_lines

    VF = corr_lines.VF
    real_fix = rl_mod.rule_list.fix
    real_update = VF.vhdlFile.update
    real_rule_fix = rule_mod.Rule.fix

    def rule_fix(self, oFile, dFixOnly=None):
        # _fix_violation may change token values in place before vhdlFile.update is called: the
        # snapshot has to be taken around the whole Rule.fix
        before = [(type(o), o.value) for o in oFile.lAllObjects]
        n0 = _SPY.get("fixv", 0)
        r = real_rule_fix(self, oFile, dFixOnly)
        if _SPY.get("fixv", 0) > n0:
            if before != [(type(o), o.value) for o in oFile.lAllObjects]:
                _SPY["changed"] = _SPY.get("changed", 0) + 1
            else:
                _SPY.setdefault("noop_rules", []).append(self.unique_id)
        return r

    def fix(self, *a, **kw):
        _SPY["rl"] = self
        return real_fix(self, *a, **kw)

    def update(self, lUpdates, bUpdateMap):
        if len(lUpdates) == 0:
            return real_update(self, lUpdates, bUpdateMap)
        _SPY["updates"] = _SPY.get("updates", 0) + 1
        _SPY["fixv"] = _SPY.get("fixv", 0) + len(lUpdates)
        return real_update(self, lUpdates, bUpdateMap)

    rl_mod.rule_list.fix = fix
    rule_mod.Rule.fix = rule_fix
    VF.vhdlFile.update = update
    _SPY["installed"] = True


def _stat(p):
    st = os.stat(p)
    with open(p, "rb") as f:
        data = f.read()
    return {"ino": st.st_ino, "mtime_ns": st.st_mtime_ns, "mode": st.st_mode, "size": st.st_size, "sha": hashlib.sha256(data).hexdigest()}


def _apply(p, style, fix, conf_dicts=(), fix_only=None):
    """one real apply_rules.apply_rules call; returns (had_violations or None, updates, changed, fixv, exception)"""
    from vsg import apply_rules

    import vsgrun

    _install_spies()
    fo_path = None
    if fix_only is not None:
        fo_path = p + ".fixonly.json"
        with open(fo_path, "w") as f:
            json.dump(fix_only, f)
    try:
        cla, conf = vsgrun.make_config(style=style, conf_dicts=conf_dicts, fix=fix, filename=[p], fix_only=fo_path)
    finally:
        if fo_path:
            os.remove(fo_path)
    for k in ("rl", "updates", "changed", "fixv", "noop_rules"):
        _SPY.pop(k, None)
    exc = None
    try:
        with contextlib.redirect_stdout(io.StringIO()), contextlib.redirect_stderr(io.StringIO()):
            apply_rules.apply_rules(cla, conf, (0, p))
    except Exception as e:  # noqa: BLE001
        exc = repr(e)[:200]
    rl = _SPY.get("rl")
    had = None if rl is None else bool(rl.had_violations)
    rules = sorted(set(_SPY.get("noop_rules", []))) if _SPY.get("changed", 0) == 0 else ([] if rl is None else sorted(r.unique_id for r in rl.rules if r.had_violations))
    return had, _SPY.get("updates", 0), _SPY.get("changed", 0), _SPY.get("fixv", 0), rules, exc


def nowrite_job(job):
    """job: {"name", "data": bytes, "style", "cli": bool}"""
    d = tempfile.mkdtemp(prefix="vsgverif-c04-")
    out = {"name": job["name"], "style": job["style"], "fails": [], "runs": [], "status": None}
    try:
        p = os.path.join(d, "t.vhd")
        with open(p, "wb") as f:
            f.write(job["data"])
        os.chmod(p, job.get("mode", 0o640))
        os.utime(p, ns=(1_600_000_000_000_000_000, 1_600_000_000_000_000_000))
        replay = {"mode": "nowrite", "name": job["name"], "style": job["style"], "text": job["data"].decode("utf-8", "replace"), "cli": bool(job.get("cli"))}
        # (a) without --fix
        s0 = _stat(p)
        if job.get("cli"):
            subprocess.run(["/venv/bin/vsg", "-f", p] + (["--style", job["style"]] if job["style"] else []), stdout=subprocess.DEVNULL, stderr=subprocess.DEVNULL, cwd=d)
            exc = None
        else:
            _, _, _, _, _, exc = _apply(p, job["style"], False, conf_dicts=job.get("conf", ()))
        s1 = _stat(p)
        ls = sorted(os.listdir(d))
        out["runs"].append({"fix": False, "untouched": s0 == s1 and ls == ["t.vhd"]})
        if s0 != s1 or ls != ["t.vhd"]:
            out["fails"].append({"site": "apply_rules.apply_rules", "kind": "modifiedWithoutFix", "detail": {"before": s0, "after": s1, "listing": ls, "exc": exc}, "replay": replay})
        # (a') --fix with a --fix_only selection that selects nothing that is there: no _fix_violation may
        # run and the file must stay untouched (write iff a fix was applied)
        if not job.get("cli"):
            for fo in ({"fix": {"rule": {}}}, {"fix": {"rule": {"entity_004": [99999], "architecture_004": [99998]}}}):
                sb = _stat(p)
                had, upd, chg, fixv, rules, exc = _apply(p, job["style"], True, conf_dicts=job.get("conf", ()), fix_only=fo)
                sa = _stat(p)
                out.setdefault("fix_only_runs", []).append({"had_violations": had, "fixv": fixv, "untouched": sb == sa})
                if had is None:
                    break
                if fixv == 0 and sb != sa:
                    out["fails"].append({"site": "rule.Rule.fix", "kind": "rewrittenWithoutFixedViolation", "detail": {"fix_only": fo, "fix_violation_calls": fixv, "had_violations": had, "same_bytes": sb["sha"] == sa["sha"], "inode": [sb["ino"], sa["ino"]]}, "replay": dict(replay, fix_only=fo)})
                    break
        # (b)/(c) with --fix, repeated until a run has no violation to fix (at most 4 runs)
        for k in range(4):
            sb = _stat(p)
            if job.get("cli"):
                subprocess.run(["/venv/bin/vsg", "-f", p, "--fix"] + (["--style", job["style"]] if job["style"] else []), stdout=subprocess.DEVNULL, stderr=subprocess.DEVNULL, cwd=d)
                had = upd = chg = fixv = None
                rules = []
                exc = None
            else:
                had, upd, chg, fixv, rules, exc = _apply(p, job["style"], True, conf_dicts=job.get("conf", ()))
            sa = _stat(p)
            ls = sorted(os.listdir(d))
            replaced = sb["ino"] != sa["ino"] or sb["mtime_ns"] != sa["mtime_ns"]
            same_bytes = sb["sha"] == sa["sha"]
            run = {"fix": True, "had_violations": had, "updates": upd, "changed_updates": chg, "fixv": fixv, "replaced": replaced, "same_bytes": same_bytes, "rules": rules[:8], "exc": exc}
            out["runs"].append(run)
            if ls != ["t.vhd"]:
                out["fails"].append({"site": "apply_rules.write_vhdl_file", "kind": "leftoverFile", "detail": {"listing": ls}, "replay": replay})
            if had is None and not job.get("cli"):
                out["status"] = "rejected"  # ClassifyError: apply_rules returned before fixing
                if sb != sa:
                    out["fails"].append({"site": "apply_rules.apply_rules", "kind": "modifiedRejectedFile", "detail": {"before": sb, "after": sa}, "replay": replay})
                break
            if job.get("cli"):
                # the command line does not tell had_violations: a run that replaces the file by the
                # same bytes had nothing it could fix (for the clean template: nothing to fix at all)
                if not replaced:
                    out["status"] = "cli-untouched-run-%d" % (k + 1)
                    break
                if same_bytes:
                    out["status"] = "cli-rewritten-unchanged-run-%d" % (k + 1)
                    out["fails"].append({"site": job["expect_site"], "kind": job["expect_kind"], "detail": {"cli": True, "run": k + 1, "same_bytes": True, "inode": [sb["ino"], sa["ino"]], "mtime_ns": [sb["mtime_ns"], sa["mtime_ns"]]}, "replay": dict(replay, text=open(p, "rb").read().decode("utf-8", "replace"))})
                    break
                continue
            if had is False:
                out["status"] = "clean-run-%d" % (k + 1)
                if sb != sa:
                    out["fails"].append({"site": "apply_rules.apply_rules", "kind": "rewrittenWithoutViolations", "detail": {"before": sb, "after": sa, "run": k + 1}, "replay": replay})
                break
            # had_violations is True
            if not replaced:
                out.setdefault("notes", []).append("had_violations but the file was not replaced (run %d)" % (k + 1))
            if chg == 0:
                # every _fix_violation of this run returned its tokens unchanged: nothing was fixable,
                # and yet the file was replaced
                out["status"] = "unrepairable-run-%d" % (k + 1)
                if replaced:
                    out["fails"].append(
                        {
                            "site": "rule.Rule.fix",
                            "kind": "rewrittenUnchanged",
                            "detail": {"run": k + 1, "rules_whose_fix_violation_ran_and_changed_nothing": rules[:12], "fix_violation_calls": fixv, "token_list_changed_by": chg, "same_bytes": same_bytes, "inode": [sb["ino"], sa["ino"]], "mtime_ns": [sb["mtime_ns"], sa["mtime_ns"]]},
                            "replay": dict(replay, text=open(p, "rb").read().decode("utf-8", "replace") if same_bytes else replay["text"]),
                        }
                    )
                break
        else:
            out["status"] = out["status"] or "still-fixing-after-4-runs"
    finally:
        shutil.rmtree(d, ignore_errors=True)
    return out


def part_nowrite(res, tier, cov):
    t0 = time.time()
    rng = common.rng("c04/nowrite")
    files = [f for f in gen_inputs.corpus_files() if os.path.getsize(f) < 12000]
    n = 30 if tier == "quick" else 300
    jobs = []
    for i, f in enumerate(rng.sample(files, min(n, len(files)))):
        data = open(f, "rb").read()
        jobs.append({"name": f, "data": data, "style": [None, None, "jcl", "indent_only"][i % 4], "mode": [0o640, 0o644, 0o600, 0o664][i % 4]})
    # line ends that a rewrite would normalise: a clean CRLF file must stay CRLF
    jobs.append({"name": "synthetic/clean-crlf", "data": CLEAN_TEMPLATE.replace("\n", "\r\n").encode(), "style": None})
    jobs.append({"name": "synthetic/clean-nofinal", "data": CLEAN_TEMPLATE.rstrip("\n").encode(), "style": None})
    jobs.append({"name": "synthetic/clean", "data": CLEAN_TEMPLATE.encode(), "style": None})
    jobs.append({"name": "synthetic/unrepairable", "data": UNREPAIRABLE_TEMPLATE.encode(), "style": None})
    jobs.append({"name": "synthetic/unrepairable-crlf", "data": UNREPAIRABLE_TEMPLATE.replace("\n", "\r\n").encode(), "style": None})
    # clean as far as the rules can tell, but with trailing blanks the post-phase-1 normalisation would strip in
    # memory: nothing is reported (whitespace_001 disabled / the file wrapped in a bare vsg_off), so nothing may be written
    trailing = "\n".join(l + ("   " if i in (1, 3) else "") for i, l in enumerate(CLEAN_TEMPLATE.split("\n")))
    jobs.append({"name": "synthetic/clean-trailing-blanks-rule-disabled", "data": trailing.encode(), "style": None, "conf": [{"rule": {"whitespace_001": {"disable": True}}}]})
    jobs.append({"name": "synthetic/clean-trailing-blanks-rule-warning", "data": trailing.encode(), "style": None, "conf": [{"rule": {"whitespace_001": {"severity": "Warning"}}}]})
    jobs.append({"name": "synthetic/clean-trailing-blanks-not-fixable", "data": trailing.encode(), "style": None, "conf": [{"rule": {"whitespace_001": {"fixable": False}}}]})
    jobs.append({"name": "synthetic/clean-trailing-blanks-vsg_off", "data": ("-- vsg_off\n" + trailing + "-- vsg_on\n").encode(), "style": None})
    # end to end through the command line
    jobs.append({"name": "cli/clean", "data": CLEAN_TEMPLATE.encode(), "style": None, "cli": True, "expect_untouched_from_run": 0, "expect_site": "apply_rules.apply_rules", "expect_kind": "rewrittenWithoutViolations"})
    jobs.append({"name": "cli/unrepairable", "data": UNREPAIRABLE_TEMPLATE.encode(), "style": None, "cli": True, "expect_untouched_from_run": 0, "expect_site": "rule.Rule.fix", "expect_kind": "rewrittenUnchanged"})
    stats = {"files": 0, "runs": 0, "runs_without_fix": 0, "untouched_without_fix": 0, "fix_runs": 0, "fix_runs_without_violation": 0, "untouched_fix_runs_without_violation": 0, "fix_runs_with_violation": 0, "replaced_when_had_violations": 0, "fix_runs_in_which_no_update_changed_a_token": 0, "rejected": 0, "status": {}, "rules_with_noop_fix": {}}
    samples = []
    with multiprocessing.Pool(PROCS) as pool:
        for r in pool.imap_unordered(nowrite_job, jobs):
            stats["files"] += 1
            stats["status"][r["status"] or "?"] = stats["status"].get(r["status"] or "?", 0) + 1
            for run in r["runs"]:
                stats["runs"] += 1
                if not run["fix"]:
                    stats["runs_without_fix"] += 1
                    stats["untouched_without_fix"] += 1 if run["untouched"] else 0
                    continue
                stats["fix_runs"] += 1
                if run["had_violations"] is False:
                    stats["fix_runs_without_violation"] += 1
                    stats["untouched_fix_runs_without_violation"] += 1 if (not run["replaced"] and run["same_bytes"]) else 0
                elif run["had_violations"]:
                    stats["fix_runs_with_violation"] += 1
                    stats["replaced_when_had_violations"] += 1 if run["replaced"] else 0
                    if run["changed_updates"] == 0:
                        stats["fix_runs_in_which_no_update_changed_a_token"] += 1
                        for rid in run["rules"]:
                            stats["rules_with_noop_fix"][rid] = stats["rules_with_noop_fix"].get(rid, 0) + 1
            if r["status"] == "rejected":
                stats["rejected"] += 1
            for fl in r["fails"]:
                res.fail(fl["site"], fl["kind"], {"file": r["name"], "style": r["style"], "detail": fl["detail"]}, fl["replay"])
                if len(samples) < 5:
                    samples.append({"file": r["name"], "site": fl["site"], "kind": fl["kind"]})
            for nt in r.get("notes", []):
                res.notes.append("%s: %s" % (r["name"], nt))
    stats["wall_s"] = round(time.time() - t0, 1)
    cov["no_write"] = stats
    return stats, samples


# ---------------------------------------------------------------------------------------------


def run(prop, tier):
    res = common.Result(prop, tier)
    ok_model, tables, nobl, ndis, thms = common.lean_phase(res, prop)
    cmd = "cd lean && lake build VsgModel driver VsgProofs.Properties.%s && lake env lean <audit file with #print axioms>" % prop
    if not ok_model:
        return res.finish(max(nobl, 1), 0, cmd, thms)
    cov = {}
    ntok, nreg = part_tokens(res, tier, cov)
    lstats, lsamples = part_lines(res, tier, cov)
    wstats, wsamples = part_nowrite(res, tier, cov)
    # >>> WP1 layer P: translated productions vs the real ones (coverage["layerP"])
    try:
        import props_prog

        props_prog.extra(res, tier)
    except ImportError:
        pass
    # <<< WP1 layer P
    res.coverage.update(cov)
    res.coverage.update(
        {
            "evaluations": ntok + lstats["files"] + wstats["runs"],
            "distinct_nontrivial": nreg + lstats["with_delimited_comment"] + lstats["with_comment"] + wstats["fix_runs"],
            "rule": "an evaluation = one string through tokens.create and the Lean `create` (all nine passes compared), or one file through the real read_vhdlfile + vhdlFile constructor and the Lean `lines` mode (every token of the pre-classification layer compared, get_lines, contract, raw items), or one real apply_rules run on a temp copy with stat before/after; non-trivial = a string whose tokens are not its characters, an accepted file containing a comment or a delimited comment, a run with --fix",
            "samples": (lsamples + wsamples)[:5] or [{"note": "no failing input"}],
            "notes": res.notes[:10],
        }
    )
    res.assumptions = [
        "the classifier productions (design_file.tokenize) and the post passes are not modelled: the theorem getLines_processLines_partial is conditional on the contract ValuePreserving (Refines), which this run evaluates on every accepted file it parses — it is not proved for all files",
        "the Lean line-layer model is tied to vhdlFile._processFile by the correspondence on the explored files only; the pragma regular expressions are evaluated by Python and handed to the model as three Booleans per line",
        "byte decoding (utf-8 with ISO-8859-1 fallback) is outside the model: readLines starts from the decoded text",
        "write decision: the model is rule_list.fix / Rule.fix with rule semantics as a parameter (had_violations iff some _fix_violation invoked); on the real code it is observed through rule_list.had_violations and stat() on the explored files and configurations",
        "a `--fix` run is called clean when rule_list.had_violations is False after it; 'no fixable violations' is decided operationally: every _fix_violation invoked in the run left the token list unchanged",
    ]
    return res.finish(max(nobl, 1), ndis, cmd, thms)


# ---------------------------------------------------------------------------------------------


def replay(prop, path):
    import gen_tables

    gen_tables.generate()
    d = json.load(open(path))
    if d.get("kind") == "no-failing-input-found":
        print(json.dumps(d, indent=1)[:4000])
        return 0
    inp = d["input"]
    mode = inp.get("mode") or ("tokens" if "string" in inp else "lines")
    if mode == "tokens":
        from vsg import tokens

        s = inp["string"]
        try:
            t = tokens.create(s)
        except Exception as e:  # noqa: BLE001
            print("REPRODUCED property=%s tokens.create(%r) raised %r" % (prop, s, e))
            return 1
        bad = "".join(t) != s or any(x == "" for x in t)
        print("tokens.create(%r) = %r" % (s, t))
        if bad:
            print("REPRODUCED property=%s" % prop)
        return 1 if bad else 0
    if mode == "lines":
        lines = inp.get("lines")
        if lines is None:
            print("the failing file is too large to be stored: %s" % inp.get("name"))
            return 0
        r = check_file({"name": inp.get("name", "replay"), "kind": "stress", "data": ("\n".join(lines) + "\n").encode("utf-8")})
        for fl in r["fails"]:
            print("REPRODUCED property=%s site=%s kind=%s %s" % (prop, fl["site"], fl["kind"], json.dumps(fl["detail"], default=str)[:600]))
        print("status=%s disagreements with the Lean model=%d" % (r.get("status"), len(r["dis"])))
        return 1 if r["fails"] else 0
    if mode == "nowrite":
        r = nowrite_job({"name": inp.get("name", "replay"), "data": inp["text"].encode("utf-8"), "style": inp.get("style"), "cli": inp.get("cli", False), "expect_untouched_from_run": 0, "expect_site": d.get("site"), "expect_kind": d.get("failure")})
        for run in r["runs"]:
            print(run)
        for fl in r["fails"]:
            print("REPRODUCED property=%s site=%s kind=%s %s" % (prop, fl["site"], fl["kind"], json.dumps(fl["detail"], default=str)[:600]))
        return 1 if r["fails"] else 0
    print("unknown replay mode", mode)
    return 2
