"""
Self-test of the SETINDENT check logic (never touches /repo): the real functions are monkeypatched in this
process with plausible bugs and the correspondence / theorem checks must notice.
    /venv/bin/python harness/selftest_setindent.py
"""
import json
import os
import sys

sys.path.insert(0, os.path.dirname(os.path.abspath(__file__)))

import common  # noqa: E402
import gen_inputs  # noqa: E402
import gen_tables  # noqa: E402
import props_setindent as P  # noqa: E402


class FakeRes:
    def __init__(self):
        self.proof_breaks = []
        self.failures = []

    def proof_break(self, what, detail):
        self.proof_breaks.append((what, detail))

    def fail(self, *a):
        self.failures.append(a)


def files():
    fs = gen_inputs.corpus_files()
    want = [f for f in fs if any(x in f for x in ("/library/", "/styles/", "/comment/", "/block_comment/", "/context_ref/", "/use_clause/", "/vsg/"))]
    return want[::5][:80]


TWO_UNITS = "library ieee;\nuse ieee.std_logic_1164.all;\nentity e is\nend entity;\nuse ieee.numeric_std.all;\narchitecture a of e is\nbegin\nend architecture;\n"


def run_corr(variants=("orig", "layout", "blank"), cfg="default", user=None):
    """the (b) + (c) part of the check on a small job list, in this process (so the patches apply)"""
    P._winit()
    jobs = [{"path": f, "variant": v, "cfg": cfg, "user": user} for f in files() for v in variants]
    jobs.append({"text": TWO_UNITS, "variant": "orig", "cfg": cfg, "user": user})
    results = [P.corr_job(j) for j in jobs]
    res = FakeRes()
    stats = {}
    P.eval_corr(res, results, jobs, stats)
    P._W["drv"].close()
    return res, stats


def run_cfg():
    tables = json.load(open(os.path.join(common.CACHE, "tables.json")))
    default_tokens = {}
    for g, k, p, v in tables["indent"]["rows"]:
        default_tokens.setdefault(g, {}).setdefault(k, {})[p] = v
    res = FakeRes()
    stats = {}
    P.check_configs(res, "quick", default_tokens, stats)
    return res, stats


def run_witness():
    res = FakeRes()
    for name, w in P.real_witnesses().items():
        if w["real"] != w["lean"]:
            res.proof_break("witness " + name, w)
    return res


def kinds(res):
    return sorted({w.split(" at ")[0][:70] for w, _ in res.proof_breaks})


def main():
    gen_tables.generate()
    from vsg import config
    from vsg.vhdlFile.indent import set_token_indent as sti

    ok = True
    res, st = run_corr()
    rc, _ = run_cfg()
    rw = run_witness()
    print("baseline: %d jobs, %d runs, %d + %d + %d proof breaks, layout pairs agree %d/%d" % (st["corr_jobs"], st["corr_runs"], len(res.proof_breaks), len(rc.proof_breaks), len(rw.proof_breaks), st["layout_blind_real"]["agree"], st["layout_blind_real"]["comparable"]))
    ok &= not res.proof_breaks and not rc.proof_breaks and not rw.proof_breaks and st["layout_blind_real"]["comparable"] > 0

    # 1. bug: a block comment with block_comment_indent == 0 gets the running indent
    real = sti.set_indent_of_block_comment
    sti.set_indent_of_block_comment = lambda cParams, iToken, lTokens: lTokens[iToken].set_indent(cParams.iIndent)
    res, st = run_corr(("orig",))
    sti.set_indent_of_block_comment = real
    print("bug 1 (block_comment_indent ignored): %d mismatching jobs, %s" % (st["corr_mismatching_jobs"], kinds(res)))
    ok &= st["corr_mismatching_jobs"] > 0

    # 2. bug: the library names are never cleared at a design unit
    real = sti.clear_library_name
    sti.clear_library_name = lambda oToken: False
    res, st = run_corr(("orig",), "use_clause_keys", P.DOC_CONFIGS["use_clause_keys"])
    sti.clear_library_name = real
    print("bug 2 (library_name never cleared): %d mismatching jobs, %s" % (st["corr_mismatching_jobs"], kinds(res)))
    ok &= st["corr_mismatching_jobs"] > 0

    # 3. "repair": the bare `continue` branches reset the indent — the sentinel runs and the stale-indent witness notice
    real = sti.update_indent_var
    real_sti = sti.set_token_indent

    def resetting(dIndentMap, lTokens):
        from vsg import parser

        for t in lTokens:
            if not isinstance(t, (parser.whitespace, parser.carriage_return, parser.blank_line)):
                t.set_indent(None)
        return real_sti(dIndentMap, lTokens)

    sti.set_token_indent = resetting
    res, st = run_corr(("orig",))
    rw = run_witness()
    sti.set_token_indent = real_sti
    print("bug 3 (indent reset on every call): %d mismatching jobs, witnesses broken: %s" % (st["corr_mismatching_jobs"], [w for w, _ in rw.proof_breaks]))
    ok &= st["corr_mismatching_jobs"] > 0 and any("staleIndent" in w for w, _ in rw.proof_breaks)

    # 4. bug: the look-ahead of a comment stops at a line break (layout dependent) — the theorem check on the
    #    real code (orig vs layout variant) and the correspondence notice
    from vsg import parser
    from vsg.vhdlFile import utils

    real = sti.get_indent_value_of_next_token

    def line_bound(iToken, lTokens, cParams):
        for i in range(iToken + 1, len(lTokens)):
            if isinstance(lTokens[i], parser.carriage_return) and i + 1 < len(lTokens) and isinstance(lTokens[i + 1], parser.whitespace) and len(lTokens[i + 1].value) > 4:
                return cParams.iIndent + 1
            if not utils.token_is_whitespace_or_comment(lTokens[i]):
                break
        return real(iToken, lTokens, cParams)

    sti.get_indent_value_of_next_token = line_bound
    res, st = run_corr(("orig", "layout"))
    sti.get_indent_value_of_next_token = real
    lb = st["layout_blind_real"]
    print("bug 4 (comment look-ahead reads the whitespace of the next line): %d mismatching jobs, layout pairs agree %d/%d, %s" % (st["corr_mismatching_jobs"], lb["agree"], lb["comparable"], kinds(res)))
    ok &= st["corr_mismatching_jobs"] > 0 and lb["agree"] < lb["comparable"]

    # 5. bug: read_indent_configuration drops the user's `after` values
    real = config.read_indent_configuration

    def dropping(dConfiguration):
        if "indent" in dConfiguration:
            for g in dConfiguration["indent"].get("tokens", {}).values():
                for k in g.values():
                    k.pop("after", None)
        return real(dConfiguration)

    config.read_indent_configuration = dropping
    rc, stc = run_cfg()
    config.read_indent_configuration = real
    print("bug 5 (user `after` dropped): %d configuration mismatches of %d" % (stc["config_mismatches"], stc["config_cases"]))
    ok &= stc["config_mismatches"] > 0

    # 6. bug: an unknown token name is silently accepted (KeyError handler gone)
    def accepting(dConfiguration):
        try:
            return real(dConfiguration)
        except SystemExit:
            return real({})

    config.read_indent_configuration = accepting
    rc, stc = run_cfg()
    config.read_indent_configuration = real
    print("bug 6 (unknown group / token accepted): %d configuration mismatches of %d" % (stc["config_mismatches"], stc["config_cases"]))
    ok &= stc["config_mismatches"] >= 2

    print("SELFTEST", "OK" if ok else "FAILED")
    return 0 if ok else 1


if __name__ == "__main__":
    sys.exit(main())
